//go:build verif

package sync

// C32: for every set of block responses (split, reordered, duplicated, forked, disconnected) full
// sync hands each block to the importer only after its parent is known, and never twice; it rejects
// any response that is not a hash-linked chain or in which a block's stated hash differs from the
// hash of its header.
//
// Real code under test: FullSyncStrategy.Process (validateResults, isResponseAChain, sort/merge of
// fragments, unreadyBlocks) AND the real blockImporter.importBlock/processBlockData/handleBlock.
// Faked (hand-written, recording): BlockState (a set of known headers over a finalised genesis),
// StorageState (empty trie), runtime.Instance (ExecuteBlock no-op), BlockImportHandler (the point
// where a block really enters the chain: mirrors BlockState.AddBlock's checks).
//
// Explicit-state search (verifmc.Hist): a state is a history of Process calls on a fresh strategy;
// one op = one Process call with a batch of 1..M responses.  Response alphabet of a tree = every
// contiguous segment of every root-to-leaf path (ascending or descending request) plus the
// deviation-1 neighbourhood (at most one deviated response per history): forged stated Hash (to
// garbage or to the hash of any other block), genuine stated Hash over another block's header, re-linked parent, wrong number, missing header,
// missing body, a "glued" pair (uncle with the stated hash of the parent), an empty response and an
// uncompleted task.  Trees: every rooted tree shape with up to N nodes (genesis = root).
//
// Oracle (independent of the code: computed from the generated tree and the response spec):
//  * at the moment a block is handed to the importer its Header.ParentHash is a known block;
//  * no block (by header hash) enters the chain twice;
//  * a response that is not hash-linked (real header hashes), or has a stated hash different from
//    its header's hash, or lacks a header, is rejected: none of its BlockData objects (tracked by
//    pointer identity) is handed to the importer or parked in unreadyBlocks, now or later;
//  * Process does not panic.

import (
	"container/list"
	"encoding/json"
	"errors"
	"fmt"
	"sort"
	"strings"
	"testing"

	"github.com/ChainSafe/gossamer/dot/network"
	"github.com/ChainSafe/gossamer/dot/network/messages"
	"github.com/ChainSafe/gossamer/dot/types"
	"github.com/ChainSafe/gossamer/internal/database"
	"github.com/ChainSafe/gossamer/internal/verifmc"
	"github.com/ChainSafe/gossamer/lib/common"
	"github.com/ChainSafe/gossamer/lib/runtime"
	rtstorage "github.com/ChainSafe/gossamer/lib/runtime/storage"
	"github.com/ChainSafe/gossamer/pkg/trie"
	"github.com/ChainSafe/gossamer/pkg/trie/inmemory"
	"github.com/libp2p/go-libp2p/core/peer"
)

// ---------------------------------------------------------------- trees

type c32Tree struct {
	parent []int // parent[0] = -1 (genesis)
	depth  []int
	hdr    []*types.Header
	hash   []common.Hash
	body   []*types.Body
	byHash map[common.Hash]int
	shape  string
}

// c32Canon: AHU canonical form of the rooted tree (sibling order forgotten).
func c32Canon(parent []int, v int) string {
	var kids []string
	for c, p := range parent {
		if p == v {
			kids = append(kids, c32Canon(parent, c))
		}
	}
	sort.Strings(kids)
	return "(" + strings.Join(kids, "") + ")"
}

// c32Shapes: one parent vector per rooted tree shape with n nodes (first in ParentVectors order).
func c32Shapes(n int) [][]int {
	seen := map[string]bool{}
	var out [][]int
	verifmc.ParentVectors(n, func(p []int) {
		k := c32Canon(p, 0)
		if !seen[k] {
			seen[k] = true
			out = append(out, append([]int{}, p...))
		}
	})
	return out
}

func c32NewTree(parent []int) *c32Tree {
	t := &c32Tree{parent: parent, byHash: map[common.Hash]int{}, shape: c32Canon(parent, 0)}
	n := len(parent)
	t.depth = make([]int, n)
	t.hdr = make([]*types.Header, n)
	t.hash = make([]common.Hash, n)
	t.body = make([]*types.Body, n)
	g := types.NewHeader(common.Hash{}, trie.EmptyHash, c31Salt32(0xe7, 0), 0, types.NewDigest())
	t.hdr[0], t.hash[0] = g, g.Hash()
	t.body[0] = types.NewBody([]types.Extrinsic{})
	t.byHash[t.hash[0]] = 0
	for i := 1; i < n; i++ {
		p := parent[i]
		t.depth[i] = t.depth[p] + 1
		t.hdr[i] = c31MakeHeader(t.hash[p], uint(t.depth[i]), uint64(i), trie.EmptyHash)
		t.hash[i] = t.hdr[i].Hash()
		t.body[i] = types.NewBody([]types.Extrinsic{{byte(i), 0x32}})
		t.byHash[t.hash[i]] = i
	}
	return t
}

// path returns the node indices from top down to bottom (top must be an ancestor-or-self of bottom).
func (t *c32Tree) path(top, bottom int) []int {
	var rev []int
	for v := bottom; ; v = t.parent[v] {
		rev = append(rev, v)
		if v == top {
			break
		}
		if v <= 0 {
			return nil
		}
	}
	out := make([]int, len(rev))
	for i, v := range rev {
		out[len(rev)-1-i] = v
	}
	return out
}

// ---------------------------------------------------------------- response specs

type c32Dev struct {
	kind string // "", forge, swaphdr, relink, renumber, nohdr, nobody, glue, empty, incomplete
	pos  int
	arg  int // node index whose hash is used, -1 = garbage; for renumber: +1 / -1
}

type c32Spec struct {
	top, bottom int
	desc        bool
	bodyOnly    bool // answer to a body+justification request by hash for block top (no header in it)
	just        bool // the lowest block of the segment (bottom) carries a justification: importing it finalises it
	dev         c32Dev
}

func (s c32Spec) String() string {
	if s.bodyOnly {
		return fmt.Sprintf("body(%d)", s.top)
	}
	d := "asc"
	if s.desc {
		d = "desc"
	}
	out := fmt.Sprintf("%s(%d..%d)", d, s.top, s.bottom)
	if s.just {
		out += "+J"
	}
	switch s.dev.kind {
	case "":
	case "empty", "incomplete":
		out += "!" + s.dev.kind
	case "glue":
		out = fmt.Sprintf("asc!glue(uncle=%d,child=%d)", s.top, s.bottom)
	default:
		arg := fmt.Sprint(s.dev.arg)
		if s.dev.arg == -1 && s.dev.kind != "renumber" {
			arg = "garbage"
		}
		out += fmt.Sprintf("!%s@%d=%s", s.dev.kind, s.dev.pos, arg)
	}
	return out
}

type c32Op struct {
	specs    []c32Spec
	announce int // > 0: not a Process call but OnBlockAnnounce(block announce of this node)
	name     string
}

func (o c32Op) Name() string { return o.name }

func c32MkOp(specs ...c32Spec) c32Op {
	var p []string
	for _, s := range specs {
		p = append(p, s.String())
	}
	return c32Op{specs: append([]c32Spec{}, specs...), name: "Process[" + strings.Join(p, " | ") + "]"}
}

var c32Garbage = c31Salt32(0xba, 0xdbad)

func (t *c32Tree) hashArg(a int) common.Hash {
	if a < 0 {
		return c32Garbage
	}
	return t.hash[a]
}

// c32Resp is one materialised response with what the oracle needs to know about it.
type c32Resp struct {
	spec       c32Spec
	who        peer.ID
	bds        []*types.BlockData // in chain (ascending) order
	linked     bool               // consecutive blocks are parent/child by REAL header hashes
	statedOK   bool               // every stated Hash equals the hash of its header
	hasHeaders bool
	mustReject bool
	cause      string // shape of the defect, for signatures
}

func (t *c32Tree) materialise(s c32Spec, who peer.ID) *c32Resp {
	r := &c32Resp{spec: s, who: who, linked: true, statedOK: true, hasHeaders: true}
	if s.dev.kind == "empty" || s.dev.kind == "incomplete" {
		return r
	}
	if s.bodyOnly {
		// no header requested, none sent: the statement's rejection clause does not apply
		r.bds = []*types.BlockData{{Hash: t.hash[s.top], Body: t.body[s.top]}}
		return r
	}
	var nodes []int
	if s.dev.kind == "glue" {
		nodes = []int{s.top, s.bottom}
	} else {
		nodes = t.path(s.top, s.bottom)
	}
	for _, v := range nodes {
		r.bds = append(r.bds, &types.BlockData{Hash: t.hash[v], Header: t.hdr[v], Body: t.body[v]})
	}
	if s.just {
		j := []byte{0x4a, byte(s.bottom)}
		r.bds[len(r.bds)-1].Justification = &j
	}
	switch s.dev.kind {
	case "forge":
		r.bds[s.dev.pos].Hash = t.hashArg(s.dev.arg)
	case "glue":
		r.bds[0].Hash = t.hdr[s.bottom].ParentHash
	case "swaphdr":
		// the stated hash stays the genuine one (so the stated hashes still chain), the header is another block's
		r.bds[s.dev.pos].Header = t.hdr[s.dev.arg]
	case "relink":
		old := r.bds[s.dev.pos].Header
		h := types.NewHeader(t.hashArg(s.dev.arg), old.StateRoot, old.ExtrinsicsRoot, old.Number, old.Digest)
		r.bds[s.dev.pos].Header, r.bds[s.dev.pos].Hash = h, h.Hash()
	case "renumber":
		old := r.bds[s.dev.pos].Header
		h := types.NewHeader(old.ParentHash, old.StateRoot, old.ExtrinsicsRoot, uint(int(old.Number)+s.dev.arg), old.Digest)
		r.bds[s.dev.pos].Header, r.bds[s.dev.pos].Hash = h, h.Hash()
	case "nohdr":
		r.bds[s.dev.pos].Header = nil
	case "nobody":
		r.bds[s.dev.pos].Body = nil
	}
	// the oracle's own judgement of the response, from real header hashes only
	for i, bd := range r.bds {
		if bd.Header == nil {
			r.hasHeaders = false
			continue
		}
		if bd.Header.Hash() != bd.Hash {
			r.statedOK = false
		}
		if i > 0 && r.bds[i-1].Header != nil && bd.Header.ParentHash != r.bds[i-1].Header.Hash() {
			r.linked = false
		}
	}
	switch {
	case !r.hasHeaders:
		r.mustReject, r.cause = true, "missing-header"
	case !r.linked && !r.statedOK:
		r.mustReject, r.cause = true, "forged-hash-glues-unlinked-blocks"
	case !r.linked:
		r.mustReject, r.cause = true, "not-hash-linked"
	case !r.statedOK:
		r.mustReject, r.cause = true, "stated-hash-differs-from-header-hash"
	}
	return r
}

func (r *c32Resp) result() *SyncTaskResult {
	s := r.spec
	if s.dev.kind == "incomplete" {
		return &SyncTaskResult{who: r.who, completed: false,
			request: messages.NewBlockRequest(*messages.NewFromBlock(uint(1)), 1, messages.BootstrapRequestData, messages.Ascending)}
	}
	wire := append([]*types.BlockData{}, r.bds...)
	if s.bodyOnly {
		return &SyncTaskResult{who: r.who, completed: true,
			request: messages.NewBlockRequest(*messages.NewFromBlock(r.bds[0].Hash), 1,
				messages.RequestedDataBody+messages.RequestedDataJustification, messages.Ascending),
			response: &messages.BlockResponseMessage{BlockData: wire}}
	}
	var req *messages.BlockRequestMessage
	n := uint32(len(wire))
	if n == 0 {
		n = 1
	}
	if s.desc {
		for i, j := 0, len(wire)-1; i < j; i, j = i+1, j-1 {
			wire[i], wire[j] = wire[j], wire[i]
		}
		var start common.Hash
		if len(wire) > 0 {
			start = wire[0].Hash
		}
		req = messages.NewBlockRequest(*messages.NewFromBlock(start), n, messages.BootstrapRequestData, messages.Descending)
	} else {
		req = messages.NewBlockRequest(*messages.NewFromBlock(uint(1)), n, messages.BootstrapRequestData, messages.Ascending)
	}
	return &SyncTaskResult{who: r.who, completed: true, request: req, response: &messages.BlockResponseMessage{BlockData: wire}}
}

// alphabet of a tree
func (t *c32Tree) honestSpecs() []c32Spec {
	var out []c32Spec
	n := len(t.parent)
	for bottom := 1; bottom < n; bottom++ {
		for top := bottom; top > 0; top = t.parent[top] {
			out = append(out, c32Spec{top: top, bottom: bottom})
			out = append(out, c32Spec{top: top, bottom: bottom, desc: true})
			out = append(out, c32Spec{top: top, bottom: bottom, just: true})
		}
	}
	for v := 1; v < n; v++ {
		out = append(out, c32Spec{top: v, bottom: v, bodyOnly: true})
	}
	return out
}

func (t *c32Tree) deviatedSpecs() []c32Spec {
	var out []c32Spec
	n := len(t.parent)
	for bottom := 1; bottom < n; bottom++ {
		for top := bottom; top > 0; top = t.parent[top] {
			nodes := t.path(top, bottom)
			for pos, v := range nodes {
				base := c32Spec{top: top, bottom: bottom}
				for a := -1; a < n; a++ {
					if a != v {
						base.dev = c32Dev{"forge", pos, a}
						out = append(out, base)
					}
					if a != t.parent[v] && a != v {
						base.dev = c32Dev{"relink", pos, a}
						out = append(out, base)
					}
					if a > 0 && a != v {
						base.dev = c32Dev{"swaphdr", pos, a}
						out = append(out, base)
					}
				}
				for _, d := range []int{1, -1} {
					base.dev = c32Dev{"renumber", pos, d}
					out = append(out, base)
				}
				base.dev = c32Dev{"nohdr", pos, 0}
				out = append(out, base)
				base.dev = c32Dev{"nobody", pos, 0}
				out = append(out, base)
			}
		}
	}
	// glued pairs: uncle u (same depth as the parent of c, not the parent) with the parent's stated hash, then c
	for c := 1; c < n; c++ {
		p := t.parent[c]
		if p <= 0 {
			continue
		}
		for u := 1; u < n; u++ {
			if u != p && t.depth[u] == t.depth[p] {
				out = append(out, c32Spec{top: u, bottom: c, dev: c32Dev{kind: "glue"}})
			}
		}
	}
	out = append(out, c32Spec{top: 1, bottom: 1, dev: c32Dev{kind: "empty"}})
	out = append(out, c32Spec{top: 1, bottom: 1, desc: true, dev: c32Dev{kind: "empty"}})
	out = append(out, c32Spec{top: 1, bottom: 1, dev: c32Dev{kind: "incomplete"}})
	return out
}

// ---------------------------------------------------------------- fakes

var errC32Unexpected = errors.New("c32: unexpected call")

type c32BlockState struct {
	BlockState // nil: any method not overridden below panics, which the harness reports as its own error
	st         *c32State
	known      map[common.Hash]*types.Header
	genesis    *types.Header
	fin        *types.Header // highest finalised header (moves when a block with a justification is imported)
	ever       map[common.Hash]struct{} // every block that has ever entered the chain (finality forgets abandoned forks)
}

// SetFinalisedHash mirrors BlockState.SetFinalisedHash: the block must be known and descend from the
// finalised block; every block that is neither on the finalised chain nor a descendant of the new
// finalised block is forgotten (BlockTree.Prune + unfinalisedBlocks.delete).
func (b *c32BlockState) SetFinalisedHash(h common.Hash, _, _ uint64) error {
	hdr, ok := b.known[h]
	if !ok {
		return fmt.Errorf("cannot finalise unknown block %s", h)
	}
	onChain := func(anc, desc common.Hash) bool {
		for cur := desc; ; {
			if cur == anc {
				return true
			}
			x, ok := b.known[cur]
			if !ok || x.Number == 0 {
				return false
			}
			cur = x.ParentHash
		}
	}
	if !onChain(b.fin.Hash(), h) {
		b.st.events = append(b.st.events, "finalise-refused:not-a-descendant-of-the-finalised-block")
		return errors.New("c32: block to finalise does not descend from the finalised block")
	}
	for k := range b.known {
		if !onChain(k, h) && !onChain(h, k) {
			delete(b.known, k)
		}
	}
	b.fin = hdr
	b.st.events = append(b.st.events, "finalised")
	return nil
}
func (b *c32BlockState) SetJustification(common.Hash, []byte) error { return nil }

func (b *c32BlockState) HasHeader(h common.Hash) (bool, error) { _, ok := b.known[h]; return ok, nil }
func (b *c32BlockState) GetHeader(h common.Hash) (*types.Header, error) {
	if x, ok := b.known[h]; ok {
		return x, nil
	}
	return nil, database.ErrNotFound
}
func (b *c32BlockState) GetHighestFinalisedHeader() (*types.Header, error) { return b.fin, nil }
func (b *c32BlockState) BestBlockHeader() (*types.Header, error)           { return b.genesis, nil }
func (b *c32BlockState) GetRuntime(common.Hash) (runtime.Instance, error)  { return c32Runtime{}, nil }
func (b *c32BlockState) IsPaused() bool                                    { return false }
func (b *c32BlockState) CompareAndSetBlockData(bd *types.BlockData) error {
	if bd.Body == nil || bd.Header == nil {
		b.st.events = append(b.st.events, "partial-block-data-stored-without-import")
	}
	return nil
}

type c32Runtime struct{ runtime.Instance }

func (c32Runtime) SetContextStorage(runtime.Storage)               {}
func (c32Runtime) ExecuteBlock(*types.Block) ([]byte, error)       { return nil, nil }

type c32Storage struct{}

func (c32Storage) TrieState(*common.Hash) (*rtstorage.TrieState, error) {
	return rtstorage.NewTrieState(inmemory.NewEmptyTrie()), nil
}
func (c32Storage) Lock()   {}
func (c32Storage) Unlock() {}

type c32TxState struct{}

func (c32TxState) RemoveExtrinsic(types.Extrinsic) {}

type c32Telemetry struct{}

func (c32Telemetry) SendMessage(json.Marshaler) {}

type c32Finality struct{}

// every justification of the alphabet is a valid one (like the runtime fake executes every block)
func (c32Finality) VerifyBlockJustification(common.Hash, uint, []byte) (uint64, uint64, error) {
	return 1, 0, nil
}

// c32Handler is where a block really enters the chain (the real one calls BlockState.AddBlock,
// whose checks are mirrored: parent present, not already present, number = parent + 1).
type c32Handler struct{ st *c32State }

var (
	errC32Exists  = errors.New("block already exists")
	errC32Number  = errors.New("unexpected block number")
	errC32NoParen = errors.New("cannot find parent block in blocktree")
)

func (h c32Handler) HandleBlockImport(block *types.Block, _ *rtstorage.TrieState, _ bool) error {
	st := h.st
	hash := block.Header.Hash()
	if _, ok := st.bs.known[hash]; ok {
		st.softf("import:block-enters-the-chain-twice"+st.causeSuffix(), "block #%d %s (%s) is imported a second time", block.Header.Number, hash.Short(), st.nodeName(hash))
		return errC32Exists
	}
	p, ok := st.bs.known[block.Header.ParentHash]
	if !ok || p.Number < st.bs.fin.Number {
		// the block tree is rooted at the finalised block: nothing attaches below it
		return errC32NoParen
	}
	if _, was := st.bs.ever[hash]; was {
		st.softf("import:block-enters-the-chain-twice"+st.causeSuffix(), "block #%d %s (%s) enters the chain again after finality had abandoned it", block.Header.Number, hash.Short(), st.nodeName(hash))
	}
	if block.Header.Number != p.Number+1 {
		st.events = append(st.events, "import-refused:unexpected-number")
		return errC32Number
	}
	hdr := block.Header
	st.bs.known[hash] = &hdr
	st.bs.ever[hash] = struct{}{}
	st.imported = append(st.imported, hash)
	return nil
}

// c32Importer decorates the real blockImporter: observes every hand-over.
type c32Importer struct {
	inner *blockImporter
	st    *c32State
}

func (i *c32Importer) importBlock(bd *types.BlockData, origin BlockOrigin) (bool, error) {
	st := i.st
	st.handovers++
	src := st.ptrResp[bd]
	if src != nil && src.mustReject {
		st.softf("reject:response-with-"+src.cause+"-reaches-the-importer", "block %s of response %s (sent by %s) is handed to the importer; the response %s",
			bd.Hash.Short(), src.spec, src.who, src.cause)
	}
	if bd.Header == nil {
		st.softf("parents-first:block-without-header-handed-to-importer"+st.causeSuffix(), "block %s has no header", bd.Hash.Short())
	} else if _, ok := st.bs.ever[bd.Header.ParentHash]; !ok {
		// "known" = has entered the chain at some point: a parent on a fork that finality has abandoned
		// since then was known when its child was requested; the importer refuses such a child itself
		st.softf("parents-first:block-handed-to-importer-before-its-parent-is-known"+st.causeSuffix(),
			"block #%d %s (%s) handed to the importer, its parent %s is not known", bd.Header.Number, bd.Header.Hash().Short(),
			st.nodeName(bd.Header.Hash()), bd.Header.ParentHash.Short())
	}
	if _, dup := st.handed[bd.Hash]; dup {
		st.events = append(st.events, "same-block-handed-again(importer-dedups)")
	}
	st.handed[bd.Hash] = struct{}{}
	ok, err := i.inner.importBlock(bd, origin)
	if err != nil {
		st.events = append(st.events, "importer-error")
	}
	return ok, err
}

// ---------------------------------------------------------------- state

type c32State struct {
	tree      *c32Tree
	f         *FullSyncStrategy
	bs        *c32BlockState
	ptrResp   map[*types.BlockData]*c32Resp
	handed    map[common.Hash]struct{}
	imported  []common.Hash
	handovers int
	events    []string
	devKind   string // deviation used in this history ("" = honest so far)
	soft      []verifmc.Violation
	calls     int
	pending   []string // outcome classes of the last Process call (emitted by Check: once per transition, not per replay)
}

func (s *c32State) softf(sig, format string, a ...any) {
	s.soft = append(s.soft, verifmc.Violation{Sig: sig, Desc: fmt.Sprintf(format, a...)})
}

// causeSuffix makes the signature of a parents-first / twice violation say whether the history was
// honest: a violation on honest input is a different defect from a consequence of a forged response.
func (s *c32State) causeSuffix() string {
	if s.devKind == "" {
		return ":honest-responses"
	}
	return ":history-with-" + s.devKind
}

func (s *c32State) nodeName(h common.Hash) string {
	if i, ok := s.tree.byHash[h]; ok {
		return fmt.Sprintf("node %d", i)
	}
	return "not a tree node"
}

func c32Fresh(t *c32Tree) *c32State {
	st := &c32State{tree: t, ptrResp: map[*types.BlockData]*c32Resp{}, handed: map[common.Hash]struct{}{}}
	st.bs = &c32BlockState{st: st, known: map[common.Hash]*types.Header{t.hash[0]: t.hdr[0]}, genesis: t.hdr[0], fin: t.hdr[0], ever: map[common.Hash]struct{}{t.hash[0]: {}}}
	cfg := &FullSyncConfig{
		StorageState: c32Storage{}, TransactionState: c32TxState{}, FinalityGadget: c32Finality{},
		BlockImportHandler: c32Handler{st}, Telemetry: c32Telemetry{}, BlockState: st.bs,
	}
	st.f = &FullSyncStrategy{
		unreadyBlocks: newUnreadyBlocks(),
		requestQueue:  &requestsQueue[*messages.BlockRequestMessage]{queue: list.New()},
		peers:         &peerViewSet{view: make(map[peer.ID]peerView)},
		blockState:    st.bs,
		numOfTasks:    defaultNumOfTasks,
		blockImporter: &c32Importer{inner: newBlockImporter(cfg), st: st},
	}
	return st
}

// c32Apply performs one Process call and evaluates the oracle on it.
func c32Apply(st *c32State, op c32Op) string {
	st.calls++
	st.pending = st.pending[:0]
	if op.announce > 0 {
		h := st.tree.hdr[op.announce]
		var aerr error
		panicked, msg := verifmc.Guard(func() {
			_, aerr = st.f.OnBlockAnnounce(peer.ID(fmt.Sprintf("announcer-%d", st.calls)), &network.BlockAnnounceMessage{
				ParentHash: h.ParentHash, Number: h.Number, StateRoot: h.StateRoot, ExtrinsicsRoot: h.ExtrinsicsRoot, Digest: h.Digest})
		})
		if panicked {
			return "sig=OnBlockAnnounce:panic:" + c32PanicSite(msg) + "|" + msg
		}
		st.pending = append(st.pending, fmt.Sprintf("announce incomplete=%d queued=%d err=%t", len(st.f.unreadyBlocks.incompleteBlocks), st.f.requestQueue.Len(), aerr != nil))
		return ""
	}
	var results []*SyncTaskResult
	var resps []*c32Resp
	for k, sp := range op.specs {
		if sp.dev.kind != "" {
			st.devKind = sp.dev.kind
		}
		who := peer.ID(fmt.Sprintf("peer-%d-%d", st.calls, k))
		rp := st.tree.materialise(sp, who)
		for _, bd := range rp.bds {
			st.ptrResp[bd] = rp
		}
		resps = append(resps, rp)
		results = append(results, rp.result())
	}
	importedBefore := len(st.imported)
	st.events = st.events[:0]
	var reps []Change
	var perr error
	panicked, msg := verifmc.Guard(func() { _, reps, _, perr = st.f.Process(results) })
	if panicked {
		cause := "honest-responses"
		for _, rp := range resps {
			if rp.spec.dev.kind != "" {
				cause = rp.spec.dev.kind + "-response"
			}
		}
		return "sig=Process:panic:" + c32PanicSite(msg) + ":" + cause + "|" + msg
	}
	// parked fragments must not contain blocks of a response that had to be rejected
	for _, frag := range st.f.unreadyBlocks.disjointFragments {
		for _, bd := range frag {
			if src := st.ptrResp[bd]; src != nil && src.mustReject {
				st.softf("reject:response-with-"+src.cause+"-is-parked-in-unready-blocks", "block %s of response %s is kept in disjointFragments; the response %s",
					bd.Hash.Short(), src.spec, src.cause)
			}
		}
	}
	// outcome classes (anti-vacuity)
	punished := map[peer.ID]bool{}
	for _, c := range reps {
		punished[c.who] = true
	}
	for _, rp := range resps {
		switch {
		case rp.mustReject && punished[rp.who]:
			st.pending = append(st.pending, "must-reject:"+rp.cause+":reputation-change")
		case rp.mustReject:
			st.pending = append(st.pending, "must-reject:"+rp.cause+":no-reputation-change")
		case punished[rp.who] && rp.spec.dev.kind == "":
			st.pending = append(st.pending, "honest-response:punished")
		case punished[rp.who]:
			st.pending = append(st.pending, "not-required-to-reject:"+rp.spec.dev.kind+":punished")
		}
	}
	cls := fmt.Sprintf("responses=%d imported=%d parked=%d queued=%d", len(resps), len(st.imported)-importedBefore,
		len(st.f.unreadyBlocks.disjointFragments), st.f.requestQueue.Len())
	if perr != nil {
		cls += " process-error"
	}
	ev := append([]string{}, st.events...)
	sort.Strings(ev)
	prev := ""
	for _, e := range ev {
		if e != prev {
			cls += " " + e
			prev = e
		}
	}
	st.pending = append(st.pending, cls)
	return ""
}

// c32PanicSite: the first gossamer (non-harness) function below the panic, e.g. "sync.sortFragmentsOfChain.func1".
func c32PanicSite(msg string) string {
	lines := strings.Split(msg, "\n")
	seenPanic := false
	for _, l := range lines {
		if strings.HasPrefix(l, "panic(") {
			seenPanic = true
			continue
		}
		if !seenPanic || strings.HasPrefix(l, "\t") || !strings.Contains(l, "github.com/ChainSafe/gossamer/") ||
			strings.Contains(l, "verifmc") || strings.Contains(l, ".c32") {
			continue
		}
		fn := l[strings.LastIndex(l, "/")+1:]
		if k := strings.LastIndex(fn, "("); k > 0 {
			fn = fn[:k]
		}
		return fn
	}
	return "unknown"
}

func c32Canonical(st *c32State) []byte {
	var b strings.Builder
	var known []string
	for h := range st.bs.known {
		known = append(known, h.String())
	}
	sort.Strings(known)
	var ever []string
	for h := range st.bs.ever {
		if _, ok := st.bs.known[h]; !ok {
			ever = append(ever, h.String())
		}
	}
	sort.Strings(ever)
	b.WriteString("fin:" + st.bs.fin.Hash().String() + ";known:" + strings.Join(known, ",") + ";forgotten:" + strings.Join(ever, ",") + ";frags:")
	for _, frag := range st.f.unreadyBlocks.disjointFragments {
		b.WriteString("[")
		for _, bd := range frag {
			hh := "nil"
			if bd.Header != nil {
				hh = bd.Header.Hash().String()
			}
			fmt.Fprintf(&b, "%s/%s/%t/%t;", bd.Hash, hh, bd.Body != nil, bd.Justification != nil)
			if src := st.ptrResp[bd]; src != nil && src.mustReject {
				b.WriteString("R") // the oracle's future verdicts depend on it
			}
		}
		b.WriteString("]")
	}
	var inc []string
	for h := range st.f.unreadyBlocks.incompleteBlocks {
		inc = append(inc, h.String())
	}
	sort.Strings(inc)
	// the request queue is write-only for Process and OnBlockAnnounce (only NextActions, which is
	// not an op here, reads it): it is left out of the state key
	b.WriteString(";incomplete:" + strings.Join(inc, ","))
	b.WriteString(";dev:" + st.devKind)
	return []byte(b.String())
}

func c32Batches(t *c32Tree, devAllowed bool, maxBatch int) []verifmc.Op {
	honest := t.honestSpecs()
	var ops []verifmc.Op
	var rec func(cur []c32Spec)
	rec = func(cur []c32Spec) {
		if len(cur) > 0 {
			ops = append(ops, c32MkOp(cur...))
		}
		if len(cur) == maxBatch {
			return
		}
		for _, h := range honest {
			rec(append(cur, h))
		}
	}
	rec(nil)
	for v := 1; v < len(t.parent); v++ {
		ops = append(ops, c32Op{announce: v, name: fmt.Sprintf("Announce[%d]", v)})
	}
	if devAllowed {
		for _, d := range t.deviatedSpecs() {
			ops = append(ops, c32MkOp(d))
			if d.dev.kind != "glue" && d.dev.kind != "empty" && d.dev.kind != "incomplete" {
				dd := d
				dd.desc = true // the same deviated blocks delivered in answer to a descending request (single response)
				ops = append(ops, c32MkOp(dd))
			}
			for _, h := range honest {
				if h.desc || h.bodyOnly {
					continue // a deviated response is combined with ascending honest chain responses only
				}
				ops = append(ops, c32MkOp(d, h), c32MkOp(h, d))
			}
		}
	}
	return ops
}

func TestVerif_C32(t *testing.T) {
	c31Quiet()
	r := verifmc.NewReport("C32", "fullsync-process", "model_checking")
	defer r.Write()
	type runCfg struct{ nodes, depth, batch int }
	runs := []runCfg{{2, 3, 2}, {3, 3, 2}, {4, 2, 2}, {5, 2, 2}}
	if verifmc.Thorough() {
		runs = []runCfg{{2, 3, 3}, {3, 3, 3}, {4, 3, 3}, {6, 2, 2}, {5, 2, 3}, {5, 3, 2}}
	}
	r.Rule = fmt.Sprintf("for every rooted tree shape with the given number of nodes (genesis = finalised root) and every (nodes, depth, batch) in %v: BFS over histories of <= depth Process calls on a fresh "+
		"FullSyncStrategy with the real blockImporter; one call = a batch of 1..batch responses; response alphabet = every contiguous segment of every "+
		"root-to-leaf path as ascending or descending response and a body-only response (answer to a body request by hash) per block, a call may also be OnBlockAnnounce(block) for any block (creates an incomplete block + body request), plus (at most one per history: alone as ascending or descending response, or ascending and paired with an ascending honest response in either order) "+
		"every deviation-1 response: forged stated Hash (garbage / any other block's hash) at any position, re-linked parent, number +-1, missing header, "+
		"missing body, glued uncle+child pair, empty response, uncompleted task; states merged on (known headers, parked fragments incl. stated/real hashes, incomplete blocks, deviation used; the request queue is write-only for these ops and not part of the key)", runs)
	totalShapes := 0
	perTree := map[string]any{}
	r.Extra["per_tree"] = perTree
	for _, rc := range runs {
		for _, pv := range c32Shapes(rc.nodes) {
			if r.Expired() {
				r.Capped(fmt.Sprintf("deadline before tree %v of run %v", pv, rc))
				break
			}
			totalShapes++
			tree := c32NewTree(pv)
			opsHonest := c32Batches(tree, false, rc.batch)
			opsAll := c32Batches(tree, true, rc.batch)
			h := &verifmc.Hist[*c32State]{
				Fresh: func() *c32State { return c32Fresh(tree) },
				Ops: func(s *c32State) []verifmc.Op {
					if s.devKind != "" {
						return opsHonest
					}
					return opsAll
				},
				Apply: func(s *c32State, op verifmc.Op) string { return c32Apply(s, op.(c32Op)) },
				Check: func(s *c32State) string {
					for _, c := range s.pending {
						r.Outcome(c)
					}
					s.pending = s.pending[:0]
					return ""
				},
				Canon: c32Canonical,
				Sig: func(hist []verifmc.Op, desc string) string {
					if strings.HasPrefix(desc, "sig=") {
						if k := strings.Index(desc, "|"); k > 0 {
							return desc[4:k]
						}
					}
					return "Process:harness-or-unclassified:" + verifmc.PanicSite(desc)
				},
				Soft: func(s *c32State) []verifmc.Violation {
					out := s.soft
					s.soft = nil
					// one violation per signature per transition is enough
					seen := map[string]bool{}
					var ded []verifmc.Violation
					for _, v := range out {
						if !seen[v.Sig] {
							seen[v.Sig] = true
							v.Desc = fmt.Sprintf("tree parent vector %v: %s", tree.parent, v.Desc)
							ded = append(ded, v)
						}
					}
					return ded
				},
				Depth: rc.depth,
			}
			h.Explore(r)
			perTree[fmt.Sprintf("%v depth<=%d batch<=%d", pv, rc.depth, rc.batch)] = map[string]any{"completed_depth": r.Extra["completed_depth"],
				"new_states_per_depth": r.Extra["new_states_per_depth"], "ops_fresh_state": len(opsAll)}
			r.Distinct("tree:" + tree.shape)
			r.Add("ops_per_fresh_state", int64(len(opsAll)))
		}
	}
	r.Add("tree_shapes", int64(totalShapes))
	r.Assumption("behaviour does not depend on sibling order (hashes are opaque, every order of responses is enumerated): one labelled tree per rooted shape")
	r.Assumption("fakes below the real blockImporter: BlockState = set of known headers over a finalised genesis, runtime executes every block, HandleBlockImport mirrors BlockState.AddBlock (parent present, not present, number = parent+1)")
	r.Assumption("a block handed twice to the importer but skipped by its HasHeader check is counted (event same-block-handed-again), not judged; only a block entering the chain twice is a violation")
	r.Assumption("a response whose only defect is a wrong number or a missing body is not required to be rejected by the statement; what happens is counted")
}
