//go:build verif

package inmemory

// C02: Trie storage behaves as an ordered byte-string map.
// BFS over put/delete/clearPrefix/clearPrefixLimit histories; in every state every
// observer is evaluated on every alphabet key/prefix and on absent probes.

import (
	"bytes"
	"fmt"
	"strings"
	"testing"

	"github.com/ChainSafe/gossamer/internal/verifmc"
	"github.com/ChainSafe/gossamer/internal/verifmc/ref"
	"github.com/ChainSafe/gossamer/pkg/trie"
)

var c02Keys = [][]byte{{}, {0x00}, {0x01}, {0x10}, {0x00, 0x00}, {0x00, 0x01}, {0x01, 0x00}, {0x10, 0x00}, {0x15, 0x00}, {0x15, 0x23}}
var c02Prefixes = [][]byte{{}, {0x00}, {0x01}, {0x10}, {0x15}, {0x00, 0x00}, {0x01, 0x00}, {0x10, 0x00}}
var c02Probes = [][]byte{{0x02}, {0x00, 0x02}, {0x11}, {0x23}, {0x15}, {0x00, 0x00, 0x00}, {0x10, 0x00, 0x00}, {0xff}}

func c02KeyList(ks [][]byte) string {
	var p []string
	for _, k := range ks {
		p = append(p, fmt.Sprintf("%x", k))
	}
	return "[" + strings.Join(p, " ") + "]"
}

func c02StrList(ks []string) string {
	var p []string
	for _, k := range ks {
		p = append(p, fmt.Sprintf("%x", k))
	}
	return "[" + strings.Join(p, " ") + "]"
}

// c02Observe evaluates every observer of the statement against the ordered-map model.
func c02Observe(st *vTrieState) string {
	t, m := st.t, st.m
	if d := vCheckContents(t, m); d != "" {
		return d
	}
	all := append(append([][]byte{}, c02Keys...), c02Probes...)
	for _, k := range all {
		got := t.Get(k)
		want, ok := m[string(k)]
		if !ok {
			if got != nil {
				// shape: the value of a key that k strictly prefixes (nibble-wise)
				sig := "Get:absent-key-wrong-value"
				for _, k2 := range m.Keys() {
					if k2 != string(k) && bytes.HasPrefix(vNibbles([]byte(k2)), vNibbles(k)) && bytes.Equal(m[k2], got) {
						sig = "Get:absent-key-returns-value-of-a-key-it-prefixes"
					}
				}
				st.softf(sig, "Get(%x): returned %s for an absent key; map %s", k, vValName(got), vMapString(m))
			}
		} else if got == nil || !bytes.Equal(got, want) {
			st.softf("Get:present-key-wrong-value", "Get(%x): returned %v, want %s; map %s", k, got, vValName(want), vMapString(m))
		}
		nk := t.NextKey(k)
		wnk, ok := m.NextKey(string(k))
		if !ok {
			if nk != nil {
				st.softf("NextKey:wrong-result", "NextKey(%x): returned %x, want none; map %s", k, nk, vMapString(m))
			}
		} else if nk == nil || string(nk) != wnk {
			st.softf("NextKey:wrong-result", "NextKey(%x): returned %x (nil=%t), want %x; map %s", k, nk, nk == nil, wnk, vMapString(m))
		}
	}
	for _, p := range append(append([][]byte{}, c02Prefixes...), c02Probes...) {
		got := t.GetKeysWithPrefix(p)
		want := m.WithPrefix(string(p))
		ok := len(got) == len(want)
		for i := 0; ok && i < len(got); i++ {
			ok = string(got[i]) == want[i]
		}
		if !ok {
			sig := "GetKeysWithPrefix:wrong-result"
			if vZeroLowNibble(p) && c02KeyList(got) == c02StrList(vTrimmedPrefixKeys(m, p)) {
				sig = "GetKeysWithPrefix:zero-low-nibble-prefix-trimmed"
			}
			st.softf(sig, "GetKeysWithPrefix(%x): returned %s, want %s; map %s", p, c02KeyList(got), c02StrList(want), vMapString(m))
		}
	}
	// iterator: full ascending walk
	it := t.Iter()
	var walked []string
	for i := 0; i <= len(m)+1; i++ {
		k := it.NextKey()
		if k == nil {
			break
		}
		walked = append(walked, string(k))
	}
	// Iterators are not among the operations of the statement; a fresh iterator yields the keys
	// strictly greater than the empty key (as next-key from "" does), so the empty key is not expected.
	want := m.Keys()
	if len(want) > 0 && want[0] == "" {
		want = want[1:]
	}
	if c02StrList(walked) != c02StrList(want) {
		st.softf("Iter:wrong-walk", "Iter: walked %s, want %s", c02StrList(walked), c02StrList(want))
	}
	return ""
}

func TestVerif_C02(t *testing.T) {
	r := verifmc.NewReport("C02", "inmemory-omap", "model_checking")
	defer r.Write()
	r.Rule = "BFS over put/delete/clearPrefix/clearPrefixLimit histories on the real InMemoryTrie (10 keys forcing shared nibble prefixes, values 01/02 and the empty value on the keys that are prefixes of others, prefixes 10/1000 with zero low nibble, limits 0..n+1); in every state Get/NextKey on 18 keys, GetKeysWithPrefix on 16 prefixes, Entries and a full iterator walk are compared with an ordered map; limited clears compare (deleted, allDeleted)"
	vals := [][]byte{{0x01}, {0x02}}
	var base []verifmc.Op
	for _, k := range c02Keys {
		base = append(base, vTrieOp{kind: "put", k: k, v: vals[0]})
	}
	for _, k := range c02Keys[:4] {
		base = append(base, vTrieOp{kind: "put", k: k, v: vals[1]})
	}
	// the EMPTY value on the keys that are prefixes of other keys (they sit on branch nodes): a present
	// key whose value has length 0 is not an absent key
	for _, k := range c02Keys[:4] {
		base = append(base, vTrieOp{kind: "put", k: k, v: []byte{}})
	}
	for _, k := range append(append([][]byte{}, c02Keys...), []byte{0x23}, []byte{0x15}, []byte{0x00, 0x00, 0x00}) {
		base = append(base, vTrieOp{kind: "delete", k: k})
	}
	for _, p := range append(append([][]byte{}, c02Prefixes...), []byte{0x23}, []byte{0x02}) {
		base = append(base, vTrieOp{kind: "clearPrefix", k: p})
	}
	depth := verifmc.Pick(5, 10)
	h := &verifmc.Hist[*vTrieState]{
		Fresh: func() *vTrieState {
			return &vTrieState{t: NewEmptyTrie(), m: ref.OMap{}, v: trie.V0}
		},
		Ops: func(s *vTrieState) []verifmc.Op {
			ops := append([]verifmc.Op{}, base...)
			for _, p := range c02Prefixes {
				n := len(s.m.WithPrefix(string(p)))
				for l := 0; l <= n+1; l++ {
					ops = append(ops, vTrieOp{kind: "clearPrefixLimit", k: p, limit: uint32(l)})
				}
			}
			return ops
		},
		Apply: func(s *vTrieState, op verifmc.Op) string {
			return vApplyTrieOp(s, op.(vTrieOp))
		},
		Check: func(s *vTrieState) string {
			if d := c02Observe(s); d != "" {
				return d
			}
			r.Outcome(fmt.Sprintf("entries=%d", len(s.m)))
			return ""
		},
		Canon: func(s *vTrieState) []byte { return append(vDumpTrie(s.t), s.m.Canon()...) },
		Sig:   vSigOf,
		Soft:  vDrainSoft,
		Depth: depth,
	}
	h.Explore(r)
}
