//go:build verif

package peerset

// C30: the peer set never exceeds its slots and never connects banned peers.
//
// Explicit-state BFS over operation histories on the real PeerSet, driven through its in-package
// synchronous entry points (the methods the action loop of listenActionAllocSlots dispatches to),
// with the result channel drained after every operation, the wall clock owned (c30_hooks.go) and
// the order of the three order-sensitive map iterations chosen by the explorer.
//
// Oracle (invariants, evaluated before and after every operation; a violation is attributed to the
// operation that introduces it):
//   S1  numIn <= maxIn, numOut <= maxOut, and the connected non-reserved peers per direction do not
//       exceed the maxima;
//   S2  numIn / numOut == number of connected non-reserved peers in that direction;
//   B1  no non-reserved peer with reputation < BannedThresholdValue is connected;
//   B2  no Accept / Connect message is emitted for a non-reserved peer whose reputation is below the
//       threshold throughout the operation;
//   R1  after report(change, peers...) every listed peer has reputation
//       clamp_int32(reputation before (after the pending time decay) + change);
//   R0  Reputation.add / Reputation.sub == clamp_int32 of the exact sum / difference (boundary grid).

import (
	"fmt"
	"io"
	"math"
	"os"
	"sort"
	"strings"
	"testing"
	"time"

	"github.com/ChainSafe/gossamer/internal/log"
	"github.com/ChainSafe/gossamer/internal/verifmc"
	"github.com/libp2p/go-libp2p/core/peer"
)

var c30Peers = []peer.ID{"p1", "p2", "p3"}

var c30Base = time.Unix(1_700_000_040, 0).UTC() // second-of-minute 0

var c30Perms = [][]int{{0, 1, 2}, {0, 2, 1}, {1, 0, 2}, {1, 2, 0}, {2, 0, 1}, {2, 1, 0}}

type c30Cfg struct {
	maxIn, maxOut uint32
	reservedOnly  bool
}

type c30Op struct {
	kind  string
	peers []int
	delta int32
	secs  int
	perm  int // index into c30Perms: order used by order-sensitive iterations during this op
}

func (o c30Op) Name() string {
	var ps []string
	for _, p := range o.peers {
		ps = append(ps, string(c30Peers[p]))
	}
	var s string
	switch o.kind {
	case "report":
		s = fmt.Sprintf("report(%d;%s)", o.delta, strings.Join(ps, ","))
	case "tick":
		s = fmt.Sprintf("tick(%ds)", o.secs)
	case "alloc":
		s = "periodicAlloc()"
	default:
		s = fmt.Sprintf("%s(%s)", o.kind, strings.Join(ps, ","))
	}
	if o.perm != 0 {
		pm := c30Perms[o.perm]
		s += fmt.Sprintf("@order=%s<%s<%s", c30Peers[pm[0]], c30Peers[pm[1]], c30Peers[pm[2]])
	}
	return s
}

type c30State struct {
	cfg  c30Cfg
	ps   *PeerSet
	ctx  *c30Ctx
	hist []c30Op
	msgs []Message
	soft []verifmc.Violation
	last string // outcome class of the last op
}

func c30Fresh(cfg c30Cfg) *c30State {
	ctx := &c30Ctx{now: c30Base}
	c30BindG(ctx)
	ps, err := newPeerSet(NewConfigSet(cfg.maxIn, cfg.maxOut, cfg.reservedOnly, time.Hour))
	if err != nil {
		panic(err)
	}
	// what PeerSet.start does, without the goroutine
	ps.resultMsgCh = make(chan Message, msgChanSize)
	c30Register(ctx, ps)
	return &c30State{cfg: cfg, ps: ps, ctx: ctx}
}

func c30Release(s *c30State) { c30Unregister(s.ctx, s.ps) }

// ---------------------------------------------------------------- snapshot + invariants

type c30Node struct {
	present bool
	state   MembershipState
	rep     Reputation
	lastSec int
}

type c30Snap struct {
	numIn, numOut, maxIn, maxOut uint32
	nodes                        [3]c30Node
	reserved, noSlot             [3]bool
	pending                      int64 // whole seconds between latestTimeUpdate and now
	extraNodes                   int
}

func c30Snapshot(s *c30State) c30Snap {
	ps := s.ps
	info := ps.peerState.sets[0]
	sn := c30Snap{numIn: info.numIn, numOut: info.numOut, maxIn: info.maxIn, maxOut: info.maxOut}
	for i, id := range c30Peers {
		if n, ok := ps.peerState.nodes[id]; ok {
			sn.nodes[i] = c30Node{present: true, state: n.state[0], rep: n.reputation, lastSec: n.lastConnected[0].Second()}
			if n.lastConnected[0].After(s.ctx.now) || n.lastConnected[0].Before(c30Base) {
				panic("verif C30: clock not owned: lastConnected outside the virtual time range")
			}
		}
		_, sn.reserved[i] = ps.reservedNode[id]
		_, sn.noSlot[i] = info.noSlotNodes[id]
	}
	sn.extraNodes = len(ps.peerState.nodes)
	for _, n := range sn.nodes {
		if n.present {
			sn.extraNodes--
		}
	}
	if ps.latestTimeUpdate.After(s.ctx.now) || ps.latestTimeUpdate.Before(c30Base) || !ps.created.Equal(c30Base) {
		panic("verif C30: clock not owned: created/latestTimeUpdate outside the virtual time range")
	}
	sn.pending = int64(s.ctx.now.Sub(ps.latestTimeUpdate) / time.Second)
	return sn
}

func (sn c30Snap) connected(i int) bool {
	return sn.nodes[i].present && (sn.nodes[i].state == ingoing || sn.nodes[i].state == outgoing)
}

// violated returns the set of violated state invariants (key -> description).
func (sn c30Snap) violated() map[string]string {
	out := map[string]string{}
	var cntIn, cntOut uint32
	for i := range c30Peers {
		if !sn.connected(i) || sn.reserved[i] {
			continue
		}
		if sn.nodes[i].state == ingoing {
			cntIn++
		} else {
			cntOut++
		}
		if sn.nodes[i].rep < BannedThresholdValue {
			out["B1:"+string(c30Peers[i])] = fmt.Sprintf("non-reserved peer %s is connected with reputation %d < threshold %d", c30Peers[i], sn.nodes[i].rep, BannedThresholdValue)
		}
	}
	if sn.numIn > sn.maxIn || cntIn > sn.maxIn {
		out["S1:in"] = fmt.Sprintf("inbound slots exceed the maximum: numIn=%d, connected non-reserved inbound peers=%d, maxIn=%d", sn.numIn, cntIn, sn.maxIn)
	}
	if sn.numOut > sn.maxOut || cntOut > sn.maxOut {
		out["S1:out"] = fmt.Sprintf("outbound slots exceed the maximum: numOut=%d, connected non-reserved outbound peers=%d, maxOut=%d", sn.numOut, cntOut, sn.maxOut)
	}
	if sn.numIn != cntIn {
		out["S2:in"] = fmt.Sprintf("numIn=%d but %d non-reserved peers are connected inbound", sn.numIn, cntIn)
	}
	if sn.numOut != cntOut {
		out["S2:out"] = fmt.Sprintf("numOut=%d but %d non-reserved peers are connected outbound", sn.numOut, cntOut)
	}
	return out
}

func (sn c30Snap) String() string {
	var b strings.Builder
	fmt.Fprintf(&b, "in=%d/%d out=%d/%d", sn.numIn, sn.maxIn, sn.numOut, sn.maxOut)
	for i, n := range sn.nodes {
		if !n.present && !sn.reserved[i] {
			continue
		}
		st := "absent"
		if n.present {
			st = [...]string{"notMember", "ingoing", "outgoing", "notConnected"}[n.state]
		}
		fmt.Fprintf(&b, " %s{%s rep=%d", c30Peers[i], st, n.rep)
		if sn.reserved[i] {
			b.WriteString(" reserved")
		}
		b.WriteString("}")
	}
	return b.String()
}

// ---------------------------------------------------------------- reference arithmetic

func c30Clamp(x int64) int64 {
	if x > math.MaxInt32 {
		return math.MaxInt32
	}
	if x < math.MinInt32 {
		return math.MinInt32
	}
	return x
}

// c30Decay: one second of decay as documented at reputationTick (move towards zero by 1/50th, at least 1).
func c30Decay(r int64, secs int64) int64 {
	for i := int64(0); i < secs && r != 0; i++ {
		d := r / 50
		if d == 0 {
			if r < 0 {
				d = -1
			} else {
				d = 1
			}
		}
		r = c30Clamp(r - d)
	}
	return r
}

// ---------------------------------------------------------------- apply

func (s *c30State) softf(sig, format string, a ...any) {
	s.soft = append(s.soft, verifmc.Violation{Sig: sig, Desc: fmt.Sprintf(format, a...)})
}

func c30StatusName(st Status) string {
	return [...]string{"Connect", "Drop", "Accept", "Reject"}[st]
}

func c30Apply(s *c30State, o c30Op) string {
	ps := s.ps
	pre := c30Snapshot(s)
	ids := make([]peer.ID, len(o.peers))
	for i, p := range o.peers {
		ids[i] = c30Peers[p]
	}
	s.ctx.rank = nil
	if o.perm != 0 {
		s.ctx.rank = map[peer.ID]int{}
		for rank, p := range c30Perms[o.perm] {
			s.ctx.rank[c30Peers[p]] = rank
		}
	}
	var err error
	switch o.kind {
	case "addPeer":
		err = ps.addPeer(0, peer.IDSlice(ids))
	case "removePeer":
		err = ps.removePeer(0, ids...)
	case "addReserved":
		err = ps.addReservedPeers(0, ids...)
	case "removeReserved":
		err = ps.removeReservedPeers(0, ids...)
	case "setReserved":
		err = ps.setReservedPeer(0, ids...)
	case "report":
		err = ps.reportPeer(ReputationChange{Value: Reputation(o.delta), Reason: "verif"}, ids...)
	case "incoming":
		err = ps.incoming(0, ids...)
	case "disconnect":
		err = ps.disconnect(0, UnknownDrop, ids...)
	case "tick":
		s.ctx.now = s.ctx.now.Add(time.Duration(o.secs) * time.Second)
	case "alloc":
		err = ps.allocSlots(0)
	default:
		panic("unknown op " + o.kind)
	}
	s.ctx.rank = nil
	s.hist = append(s.hist, o)
	// drain the result channel
	s.msgs = s.msgs[:0]
	for {
		select {
		case m := <-ps.resultMsgCh:
			s.msgs = append(s.msgs, m)
			continue
		default:
		}
		break
	}
	post := c30Snapshot(s)
	name := o.Name()

	// outcome class
	cls := o.kind + ":"
	if err != nil {
		cls += "err"
	} else {
		var ms []string
		for _, m := range s.msgs {
			ms = append(ms, c30StatusName(m.Status))
		}
		sort.Strings(ms)
		cls += strings.Join(ms, "+")
	}
	s.last = cls

	// state invariants: report what this operation introduces
	was := pre.violated()
	for _, k := range c30SortedKeys(post.violated()) {
		if _, already := was[k]; already {
			continue
		}
		s.softf(c30InvSig(o, k, pre), "%s: %s; before: %s; after: %s", name, post.violated()[k], pre, post)
	}

	// B2: messages
	for _, m := range s.msgs {
		if m.Status != Accept && m.Status != Connect {
			continue
		}
		i := c30Index(m.PeerID)
		if i < 0 || pre.reserved[i] || post.reserved[i] {
			continue
		}
		before := c30Decay(int64(pre.nodes[i].rep), pre.pending)
		if before < int64(BannedThresholdValue) && post.nodes[i].rep < BannedThresholdValue {
			s.softf(o.kind+":"+c30StatusName(m.Status)+"-emitted-for-banned-peer",
				"%s: %s emitted for non-reserved peer %s whose reputation is below the threshold before (%d) and after (%d) the operation; before: %s; after: %s",
				name, c30StatusName(m.Status), m.PeerID, before, post.nodes[i].rep, pre, post)
		}
	}

	// R1: report arithmetic
	if o.kind == "report" && err == nil {
		var firstApplied bool
		for k, p := range o.peers {
			decayed := c30Decay(int64(pre.nodes[p].rep), pre.pending)
			want := c30Clamp(decayed + int64(o.delta))
			got := int64(post.nodes[p].rep)
			if k == 0 {
				firstApplied = got == want
			}
			if got == want {
				continue
			}
			sig := "report:wrong-reputation"
			switch {
			case k > 0 && firstApplied && got == decayed:
				sig = "report:change-not-applied-to-later-peer"
			case want == math.MaxInt32 || want == math.MinInt32:
				sig = "report:reputation-not-saturating"
			}
			s.softf(sig, "%s: reputation of %s (listed at position %d) is %d, want clamp(%d%+d)=%d; before: %s; after: %s",
				name, c30Peers[p], k, got, decayed, o.delta, want, pre, post)
		}
	}
	if post.extraNodes != 0 {
		return "harness: unknown peers in the node table"
	}
	return ""
}

func c30Index(id peer.ID) int {
	for i, p := range c30Peers {
		if p == id {
			return i
		}
	}
	return -1
}

func c30SortedKeys(m map[string]string) []string {
	ks := make([]string, 0, len(m))
	for k := range m {
		ks = append(ks, k)
	}
	sort.Strings(ks)
	return ks
}

// c30InvSig names the shape of a newly violated invariant: operation kind, invariant, and the
// situation of the peer(s) the operation touched.
func c30InvSig(o c30Op, key string, pre c30Snap) string {
	inv := map[string]string{"S1:in": "inbound-slots-exceed-max", "S1:out": "outbound-slots-exceed-max",
		"S2:in": "numIn-differs-from-connected-inbound", "S2:out": "numOut-differs-from-connected-outbound"}[key]
	if strings.HasPrefix(key, "B1:") {
		inv = "banned-peer-connected"
	}
	shape := ""
	switch o.kind {
	case "removeReserved", "setReserved":
		// a reserved peer that is connected loses its reservation and starts to occupy a slot
		for i := range c30Peers {
			if pre.reserved[i] && pre.connected(i) {
				shape = "(connected-reserved-peer-unreserved)"
			}
		}
	}
	return o.kind + ":" + inv + shape
}

// ---------------------------------------------------------------- canonical state

func c30Canon(s *c30State) []byte {
	sn := c30Snapshot(s)
	var b strings.Builder
	fmt.Fprintf(&b, "ro=%t in=%d out=%d pend=%d sec=%d extra=%d|", s.ps.isReservedOnly, sn.numIn, sn.numOut, sn.pending, s.ctx.now.Second(), sn.extraNodes)
	for i, n := range sn.nodes {
		fmt.Fprintf(&b, "%t,%d,%d,", n.present, n.state, n.rep)
		if n.present && n.state == notConnected {
			fmt.Fprintf(&b, "%d", n.lastSec) // only read for not-connected nodes, and only its second-of-minute
		}
		fmt.Fprintf(&b, ",%t,%t|", sn.reserved[i], sn.noSlot[i])
	}
	return []byte(b.String())
}

// ---------------------------------------------------------------- alphabet

func c30BaseOps(thorough bool) []c30Op {
	thr := int32(BannedThresholdValue)
	deltas := []int32{math.MinInt32, thr - 1, thr, -1, 1, math.MaxInt32}
	var ops []c30Op
	for p := 0; p < 3; p++ {
		ops = append(ops, c30Op{kind: "addPeer", peers: []int{p}})
	}
	for p := 0; p < 3; p++ {
		ops = append(ops, c30Op{kind: "incoming", peers: []int{p}})
	}
	for p := 0; p < 3; p++ {
		ops = append(ops, c30Op{kind: "disconnect", peers: []int{p}})
	}
	for p := 0; p < 3; p++ {
		ops = append(ops, c30Op{kind: "removePeer", peers: []int{p}})
	}
	for p := 0; p < 3; p++ {
		ops = append(ops, c30Op{kind: "addReserved", peers: []int{p}})
	}
	for p := 0; p < 3; p++ {
		ops = append(ops, c30Op{kind: "removeReserved", peers: []int{p}})
	}
	sets := [][]int{{}, {0}, {0, 1}, {0, 1, 2}}
	if thorough {
		sets = [][]int{{}, {0}, {1}, {2}, {0, 1}, {0, 2}, {1, 2}, {0, 1, 2}}
	}
	for _, set := range sets {
		ops = append(ops, c30Op{kind: "setReserved", peers: set})
	}
	for _, d := range deltas {
		for p := 0; p < 3; p++ {
			ops = append(ops, c30Op{kind: "report", peers: []int{p}, delta: d})
		}
	}
	for _, d := range deltas {
		for p := 0; p < 3; p++ {
			for q := 0; q < 3; q++ {
				if p != q {
					ops = append(ops, c30Op{kind: "report", peers: []int{p, q}, delta: d})
				}
			}
		}
	}
	ops = append(ops, c30Op{kind: "tick", secs: 1}, c30Op{kind: "tick", secs: 3601}, c30Op{kind: "alloc"})
	return ops
}

// ---------------------------------------------------------------- R0: Reputation.add / sub

func c30Arithmetic(r *verifmc.Report) {
	thr := int64(BannedThresholdValue)
	grid := []int64{math.MinInt32, math.MinInt32 + 1, math.MinInt32 + 2, thr - 1, thr, thr + 1, -(1 << 30), -257, -256, -50, -49, -2, -1, 0,
		1, 2, 49, 50, 256, 1 << 30, math.MaxInt32 - 2, math.MaxInt32 - 1, math.MaxInt32}
	for _, a := range grid {
		for _, b := range grid {
			r.Add("arithmetic_evaluations", 2)
			if got, want := int64(Reputation(a).add(Reputation(b))), c30Clamp(a+b); got != want {
				r.Violate("Reputation.add:not-clamped-sum", fmt.Sprintf("Reputation(%d).add(%d) = %d, want %d", a, b, got, want), []any{"add", a, b})
			} else if want != a+b {
				r.Outcome("add:saturated")
			}
			if got, want := int64(Reputation(a).sub(Reputation(b))), c30Clamp(a-b); got != want {
				sig := "Reputation.sub:not-clamped-difference"
				if b == math.MinInt32 {
					sig = "Reputation.sub:subtracting-MinInt32"
				}
				r.Violate(sig, fmt.Sprintf("Reputation(%d).sub(%d) = %d, want %d", a, b, got, want), []any{"sub", a, b})
			} else if want != a-b {
				r.Outcome("sub:saturated")
			}
		}
	}
}

// ---------------------------------------------------------------- test

func TestVerif_C30(t *testing.T) {
	r := verifmc.NewReport("C30", "peerset", "model_checking")
	defer r.Write()
	logger.Patch(log.SetWriter(io.Discard), log.SetLevel(log.Critical))
	thorough := verifmc.Thorough()
	maxSlots := verifmc.Pick(uint32(2), uint32(3))
	depth := verifmc.Pick(4, 5)
	if v := os.Getenv("C30_DEPTH"); v != "" { // debugging aid only
		fmt.Sscan(v, &depth)
	}
	base := c30BaseOps(thorough)
	r.Rule = fmt.Sprintf("for every configuration maxIn,maxOut in 0..%d x reservedOnly in {false,true}: BFS over all histories of <=%d operations on the real PeerSet over peers p1..p3: addPeer/incoming/disconnect/removePeer/addReserved/removeReserved(p), setReserved(set), report(d;p) and report(d;p,q) for d in {MinInt32, threshold-1, threshold, -1, +1, MaxInt32}, tick(1s), tick(3601s), periodicAlloc; operations whose result can depend on a map iteration order are executed under all 6 peer orders; invariants S1,S2,B1,B2,R1 after every operation; Reputation.add/sub on a 23x23 boundary grid", maxSlots, depth)
	r.Assumption("wall clock and order-sensitive map iterations of dot/peerset are owned through overlay rewrites (c30_hooks.go); one order per operation (all order-sensitive iterations inside one operation follow the same peer order)")
	r.Assumption("the PeerSet is driven through the methods the action loop dispatches to, not through the goroutine/channel loop itself")

	// pre-flight: the clock must be owned
	{
		s := c30Fresh(c30Cfg{1, 1, false})
		c30Apply(s, c30Op{kind: "tick", secs: 5})
		c30Apply(s, c30Op{kind: "addPeer", peers: []int{0}})
		c30Apply(s, c30Op{kind: "disconnect", peers: []int{0}})
		n := s.ps.peerState.nodes[c30Peers[0]]
		if n == nil || !n.lastConnected[0].Equal(c30Base.Add(5*time.Second)) || !s.ps.latestTimeUpdate.Equal(c30Base.Add(5*time.Second)) {
			t.Fatalf("clock not owned: rewrites not in effect")
		}
		c30Release(s)
	}

	c30Arithmetic(r)

	// L1 (prerequisite of "a reported change applies to each peer"): report must return.  A report
	// that names a peer absent from the node table is probed once under a watchdog; if it does not
	// return, that is recorded and such reports are not executed during the exploration (a blocked
	// PeerSet cannot be explored further); every other hang is caught by the explorer's own watchdog.
	reportUnknownHangs := false
	{
		fin, pmsg := verifmc.WithWatchdog(5*time.Second, func() {
			s := c30Fresh(c30Cfg{1, 1, false})
			c30Apply(s, c30Op{kind: "report", peers: []int{0}, delta: -1})
			c30Release(s)
		})
		switch {
		case !fin:
			reportUnknownHangs = true
			r.Violate("report:never-returns-for-peer-absent-from-node-table",
				"report(-1;p1) on a fresh PeerSet did not return within 5s (PeersState.addReputation holds the PeersState lock and calls insertPeer, which locks it again)",
				[]string{"report(-1;p1)"})
			r.Outcome("report:hang-on-unknown-peer")
		case pmsg != "":
			r.Violate("report:panic:"+verifmc.PanicSite(pmsg), pmsg, []string{"report(-1;p1)"})
		}
	}

	for in := uint32(0); in <= maxSlots; in++ {
		for out := uint32(0); out <= maxSlots; out++ {
			for _, ro := range []bool{false, true} {
				cfg := c30Cfg{in, out, ro}
				h := &verifmc.Hist[*c30State]{
					Fresh: func() *c30State { return c30Fresh(cfg) },
					Ops: func(s *c30State) []verifmc.Op {
						// dry run of every base operation to learn whether an iteration order can matter
						var ops []verifmc.Op
						for _, o := range base {
							if o.kind == "report" && reportUnknownHangs {
								absent := false
								for _, p := range o.peers {
									if _, ok := s.ps.peerState.nodes[c30Peers[p]]; !ok {
										absent = true
									}
								}
								if absent {
									r.Outcome("report:not-executed(names-absent-peer,would-block)")
									continue
								}
							}
							ops = append(ops, o)
							if o.kind == "tick" {
								continue
							}
							sens := false
							fin, pmsg := verifmc.WithWatchdog(20*time.Second, func() {
								d := c30Fresh(cfg)
								for _, ho := range s.hist {
									c30Apply(d, ho)
								}
								d.ctx.sensitive = false
								c30Apply(d, o)
								sens = d.ctx.sensitive
								c30Release(d)
							})
							if fin && pmsg == "" && sens {
								for pm := 1; pm < len(c30Perms); pm++ {
									v := o
									v.perm = pm
									ops = append(ops, v)
								}
							}
						}
						return ops
					},
					Apply: func(s *c30State, op verifmc.Op) string { return c30Apply(s, op.(c30Op)) },
					Check: func(s *c30State) string {
						r.Outcome(s.last)
						return ""
					},
					Canon: c30Canon,
					Soft: func(s *c30State) []verifmc.Violation {
						v := s.soft
						s.soft = nil
						return v
					},
					Sig: func(hist []verifmc.Op, desc string) string {
						k := "init"
						if len(hist) > 0 {
							k = hist[len(hist)-1].(c30Op).kind
						}
						if strings.HasPrefix(desc, "panic") {
							return k + ":panic:" + verifmc.PanicSite(desc)
						}
						return k + ":" + desc
					},
					Release:     c30Release,
					Depth:       depth,
					ElemTimeout: 20 * time.Second,
				}
				before := r.Counters["states"]
				h.Explore(r)
				r.Extra[fmt.Sprintf("states[in=%d,out=%d,reservedOnly=%t]", in, out, ro)] = r.Counters["states"] - before
				if r.Expired() {
					r.Capped("deadline reached before all configurations were explored")
					return
				}
			}
		}
	}
}
