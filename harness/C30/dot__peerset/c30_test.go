//go:build verif

package peerset

// C30: the peer set never exceeds its slots and never connects banned peers.
//
// Explicit-state BFS over operation histories on the real PeerSet, driven through its in-package
// synchronous entry points (the methods the action loop of listenActionAllocSlots dispatches to),
// with the result channel drained after every operation, the wall clock owned (c30_hooks.go) and
// the order of the three order-sensitive map iterations chosen by the explorer.
//
// Oracle (invariants, evaluated before and after every operation; a violation is attributed to the
// operation that introduces it):
//   S1  numIn <= maxIn, numOut <= maxOut, and the connected non-reserved peers per direction do not
//       exceed the maxima;
//   S2  numIn / numOut == number of connected non-reserved peers in that direction;
//   B1  no non-reserved peer with reputation < BannedThresholdValue is connected;
//   B2  no Accept / Connect message is emitted for a non-reserved peer whose reputation is below the
//       threshold throughout the operation;
//   R1  after report(change, peers...) every listed peer has reputation
//       clamp_int32(reputation before (after the pending time decay) + change);
//   R0  Reputation.add / Reputation.sub == clamp_int32 of the exact sum / difference (boundary grid).

import (
	"fmt"
	"io"
	"math"
	"os"
	"sort"
	"strings"
	"sync/atomic"
	"testing"
	"time"

	"github.com/ChainSafe/gossamer/internal/log"
	"github.com/ChainSafe/gossamer/internal/verifmc"
	"github.com/libp2p/go-libp2p/core/peer"
)

var c30Peers = []peer.ID{"p1", "p2", "p3"}

var c30Base = time.Unix(1_700_000_040, 0).UTC() // second-of-minute 0

var c30Perms = [][]int{{0, 1, 2}, {0, 2, 1}, {1, 0, 2}, {1, 2, 0}, {2, 0, 1}, {2, 1, 0}}

type c30Cfg struct {
	maxIn, maxOut uint32
	reservedOnly  bool
}

type c30Op struct {
	kind  string
	peers []int
	delta int32
	secs  int
	perm  int // index into c30Perms: order used by order-sensitive iterations during this op
}

func (o c30Op) Name() string {
	var ps []string
	for _, p := range o.peers {
		ps = append(ps, string(c30Peers[p]))
	}
	var s string
	switch o.kind {
	case "report":
		s = fmt.Sprintf("report(%d;%s)", o.delta, strings.Join(ps, ","))
	case "tick":
		s = fmt.Sprintf("tick(%ds)", o.secs)
	case "alloc":
		s = "periodicAlloc()"
	default:
		s = fmt.Sprintf("%s(%s)", o.kind, strings.Join(ps, ","))
	}
	if o.perm != 0 {
		pm := c30Perms[o.perm]
		s += fmt.Sprintf("@order=%s<%s<%s", string(c30Peers[pm[0]]), string(c30Peers[pm[1]]), string(c30Peers[pm[2]]))
	}
	return s
}

type c30State struct {
	cfg  c30Cfg
	ps   *PeerSet
	ctx  *c30Ctx
	hist []c30Op
	msgs []Message
	soft []verifmc.Violation
	last string // outcome class of the last op
}

func c30Fresh(cfg c30Cfg) *c30State {
	ctx := &c30Ctx{now: c30Base}
	ps, err := newPeerSet(NewConfigSet(cfg.maxIn, cfg.maxOut, cfg.reservedOnly, time.Hour))
	if err != nil {
		panic(err)
	}
	if !ps.created.IsZero() || !ps.latestTimeUpdate.IsZero() {
		panic("verif C30: clock not owned: newPeerSet read a clock the harness does not own")
	}
	ps.created, ps.latestTimeUpdate = c30Base, c30Base // the time newPeerSet reads at construction
	// what PeerSet.start does, without the goroutine (no operation emits more than a handful of
	// messages over three peers; a smaller buffer than msgChanSize keeps the fresh instances cheap)
	ps.resultMsgCh = make(chan Message, 32)
	c30Register(ctx, ps)
	return &c30State{cfg: cfg, ps: ps, ctx: ctx}
}

func c30Release(s *c30State) { c30Unregister(s.ctx, s.ps) }

// ---------------------------------------------------------------- snapshot + invariants

type c30Node struct {
	present bool
	state   MembershipState
	rep     Reputation
	lastSec int
}

type c30Snap struct {
	numIn, numOut, maxIn, maxOut uint32
	nodes                        [3]c30Node
	reserved, noSlot             [3]bool
	pending                      int64 // whole seconds between latestTimeUpdate and now
	extraNodes                   int
}

func c30Snapshot(s *c30State) c30Snap {
	ps := s.ps
	info := ps.peerState.sets[0]
	sn := c30Snap{numIn: info.numIn, numOut: info.numOut, maxIn: info.maxIn, maxOut: info.maxOut}
	for i, id := range c30Peers {
		if n, ok := ps.peerState.nodes[id]; ok {
			sn.nodes[i] = c30Node{present: true, state: n.state[0], rep: n.reputation, lastSec: n.lastConnected[0].Second()}
			if n.lastConnected[0].IsZero() || n.lastConnected[0].After(s.ctx.now) || n.lastConnected[0].Before(c30Base) {
				panic("verif C30: clock not owned: lastConnected outside the virtual time range")
			}
		}
		_, sn.reserved[i] = ps.reservedNode[id]
		_, sn.noSlot[i] = info.noSlotNodes[id]
	}
	sn.extraNodes = len(ps.peerState.nodes)
	for _, n := range sn.nodes {
		if n.present {
			sn.extraNodes--
		}
	}
	if ps.latestTimeUpdate.After(s.ctx.now) || ps.latestTimeUpdate.Before(c30Base) || !ps.created.Equal(c30Base) {
		panic("verif C30: clock not owned: created/latestTimeUpdate outside the virtual time range")
	}
	sn.pending = int64(s.ctx.now.Sub(ps.latestTimeUpdate) / time.Second)
	return sn
}

func (sn c30Snap) connected(i int) bool {
	return sn.nodes[i].present && (sn.nodes[i].state == ingoing || sn.nodes[i].state == outgoing)
}

type c30Viol struct {
	key, desc string
	level     uint32 // how far the invariant is exceeded (slot invariants: the larger of counter and count)
}

// violated returns the violated state invariants in a fixed order.
func (sn c30Snap) violated() []c30Viol {
	var out []c30Viol
	var cntIn, cntOut uint32
	for i := range c30Peers {
		if !sn.connected(i) || sn.reserved[i] {
			continue
		}
		if sn.nodes[i].state == ingoing {
			cntIn++
		} else {
			cntOut++
		}
		if sn.nodes[i].rep < BannedThresholdValue {
			out = append(out, c30Viol{"B1:" + string(c30Peers[i]), fmt.Sprintf("non-reserved peer %s is connected with reputation %d < threshold %d", string(c30Peers[i]), sn.nodes[i].rep, BannedThresholdValue), 0})
		}
	}
	if sn.numIn > sn.maxIn || cntIn > sn.maxIn {
		out = append(out, c30Viol{"S1:in", fmt.Sprintf("inbound slots exceed the maximum: numIn=%d, connected non-reserved inbound peers=%d, maxIn=%d", sn.numIn, cntIn, sn.maxIn), max(sn.numIn, cntIn)})
	}
	if sn.numOut > sn.maxOut || cntOut > sn.maxOut {
		out = append(out, c30Viol{"S1:out", fmt.Sprintf("outbound slots exceed the maximum: numOut=%d, connected non-reserved outbound peers=%d, maxOut=%d", sn.numOut, cntOut, sn.maxOut), max(sn.numOut, cntOut)})
	}
	if sn.numIn != cntIn {
		out = append(out, c30Viol{"S2:in", fmt.Sprintf("numIn=%d but %d non-reserved peers are connected inbound", sn.numIn, cntIn), 0})
	}
	if sn.numOut != cntOut {
		out = append(out, c30Viol{"S2:out", fmt.Sprintf("numOut=%d but %d non-reserved peers are connected outbound", sn.numOut, cntOut), 0})
	}
	return out
}

func (sn c30Snap) String() string {
	var b strings.Builder
	fmt.Fprintf(&b, "in=%d/%d out=%d/%d", sn.numIn, sn.maxIn, sn.numOut, sn.maxOut)
	for i, n := range sn.nodes {
		if !n.present && !sn.reserved[i] {
			continue
		}
		st := "absent"
		if n.present {
			st = [...]string{"notMember", "ingoing", "outgoing", "notConnected"}[n.state]
		}
		fmt.Fprintf(&b, " %s{%s rep=%d", string(c30Peers[i]), st, n.rep)
		if sn.reserved[i] {
			b.WriteString(" reserved")
		}
		b.WriteString("}")
	}
	return b.String()
}

// ---------------------------------------------------------------- reference arithmetic

func c30Clamp(x int64) int64 {
	if x > math.MaxInt32 {
		return math.MaxInt32
	}
	if x < math.MinInt32 {
		return math.MinInt32
	}
	return x
}

// c30Decay: one second of decay as documented at reputationTick (move towards zero by 1/50th, at least 1).
func c30Decay(r int64, secs int64) int64 {
	for i := int64(0); i < secs && r != 0; i++ {
		d := r / 50
		if d == 0 {
			if r < 0 {
				d = -1
			} else {
				d = 1
			}
		}
		r = c30Clamp(r - d)
	}
	return r
}

// ---------------------------------------------------------------- apply

func (s *c30State) softf(sig, format string, a ...any) {
	s.soft = append(s.soft, verifmc.Violation{Sig: sig, Desc: fmt.Sprintf(format, a...)})
}

func c30StatusName(st Status) string {
	return [...]string{"Connect", "Drop", "Accept", "Reject"}[st]
}

func c30Apply(s *c30State, o c30Op) string {
	ps := s.ps
	pre := c30Snapshot(s)
	ids := make([]peer.ID, len(o.peers))
	for i, p := range o.peers {
		ids[i] = c30Peers[p]
	}
	s.ctx.rank = nil
	if o.perm != 0 {
		s.ctx.rank = map[peer.ID]int{}
		for rank, p := range c30Perms[o.perm] {
			s.ctx.rank[c30Peers[p]] = rank
		}
	}
	var err error
	switch o.kind {
	case "addPeer":
		err = ps.addPeer(0, peer.IDSlice(ids))
	case "removePeer":
		err = ps.removePeer(0, ids...)
	case "addReserved":
		err = ps.addReservedPeers(0, ids...)
	case "removeReserved":
		err = ps.removeReservedPeers(0, ids...)
	case "setReserved":
		err = ps.setReservedPeer(0, ids...)
	case "report":
		err = ps.reportPeer(ReputationChange{Value: Reputation(o.delta), Reason: "verif"}, ids...)
	case "incoming":
		err = ps.incoming(0, ids...)
	case "disconnect":
		err = ps.disconnect(0, UnknownDrop, ids...)
	case "tick":
		s.ctx.now = s.ctx.now.Add(time.Duration(o.secs) * time.Second)
	case "alloc":
		err = ps.allocSlots(0)
	default:
		panic("unknown op " + o.kind)
	}
	s.ctx.rank = nil
	s.hist = append(s.hist, o)
	// drain the result channel
	s.msgs = s.msgs[:0]
	for {
		select {
		case m := <-ps.resultMsgCh:
			s.msgs = append(s.msgs, m)
			continue
		default:
		}
		break
	}
	post := c30Snapshot(s)
	name := o.Name()

	// outcome class
	cls := o.kind + ":"
	if err != nil {
		cls += "err"
	} else {
		var ms []string
		for _, m := range s.msgs {
			ms = append(ms, c30StatusName(m.Status))
		}
		sort.Strings(ms)
		cls += strings.Join(ms, "+")
	}
	s.last = cls

	// state invariants: report what this operation introduces
	if now := post.violated(); len(now) > 0 {
		was := pre.violated()
		for _, v := range now {
			already := false
			for _, w := range was {
				if w.key == v.key {
					already = true
					if v.level > w.level {
						// the invariant was already broken (possibly by a listed finding) and this operation
						// takes one more slot: a new violation of its own
						// (unless it is again a connected reserved peer that lost its reservation: same shape as
						// when that happens with free slots)
						var unres uint32
						for i := range c30Peers {
							if pre.reserved[i] && !post.reserved[i] && post.connected(i) && (post.nodes[i].state == ingoing) == (v.key == "S1:in") {
								unres++
							}
						}
						sig := o.kind + ":" + v.key + ":slots-exceeded-further"
						if unres > 0 && v.level-w.level <= unres {
							sig = c30InvSig(o, v.key, pre, post)
						}
						s.softf(sig, "%s: %s (level %d before the operation); before: %s; after: %s", name, v.desc, w.level, pre, post)
					}
				}
			}
			if !already {
				s.softf(c30InvSig(o, v.key, pre, post), "%s: %s; before: %s; after: %s", name, v.desc, pre, post)
			}
		}
	}

	// B2: messages
	for _, m := range s.msgs {
		if m.Status != Accept && m.Status != Connect {
			continue
		}
		i := c30Index(m.PeerID)
		if i < 0 || pre.reserved[i] || post.reserved[i] {
			continue
		}
		before := c30Decay(int64(pre.nodes[i].rep), pre.pending)
		if before < int64(BannedThresholdValue) && post.nodes[i].rep < BannedThresholdValue {
			s.softf(o.kind+":"+c30StatusName(m.Status)+"-emitted-for-banned-peer",
				"%s: %s emitted for non-reserved peer %s whose reputation is below the threshold before (%d) and after (%d) the operation; before: %s; after: %s",
				name, c30StatusName(m.Status), string(m.PeerID), before, post.nodes[i].rep, pre, post)
		}
	}

	// R1: report arithmetic
	if o.kind == "report" && err == nil {
		var firstApplied bool
		for k, p := range o.peers {
			decayed := c30Decay(int64(pre.nodes[p].rep), pre.pending)
			want := c30Clamp(decayed + int64(o.delta))
			got := int64(post.nodes[p].rep)
			if k == 0 {
				firstApplied = got == want
			}
			if got == want {
				continue
			}
			sig := "report:wrong-reputation"
			switch {
			case k > 0 && firstApplied && got == decayed:
				sig = "report:change-not-applied-to-later-peer"
			case want == math.MaxInt32 || want == math.MinInt32:
				sig = "report:reputation-not-saturating"
			}
			s.softf(sig, "%s: reputation of %s (listed at position %d) is %d, want clamp(%d%+d)=%d; before: %s; after: %s",
				name, string(c30Peers[p]), k, got, decayed, o.delta, want, pre, post)
		}
	}
	if post.extraNodes != 0 {
		return "harness: unknown peers in the node table"
	}
	return ""
}

func c30AsOps(h []c30Op) []verifmc.Op {
	out := make([]verifmc.Op, len(h))
	for i, o := range h {
		out[i] = o
	}
	return out
}

func c30Index(id peer.ID) int {
	for i, p := range c30Peers {
		if p == id {
			return i
		}
	}
	return -1
}

// c30InvSig names the shape of a newly violated invariant: operation kind, invariant, and the
// situation of the peer(s) the operation touched.
func c30InvSig(o c30Op, key string, pre, post c30Snap) string {
	inv := map[string]string{"S1:in": "inbound-slots-exceed-max", "S1:out": "outbound-slots-exceed-max",
		"S2:in": "numIn-differs-from-connected-inbound", "S2:out": "numOut-differs-from-connected-outbound"}[key]
	if strings.HasPrefix(key, "B1:") {
		inv = "banned-peer-connected"
	}
	shape := ""
	switch o.kind {
	case "removeReserved", "setReserved":
		// a reserved peer loses its reservation while it is connected and starts to occupy a slot
		for i := range c30Peers {
			if pre.reserved[i] && !post.reserved[i] && post.connected(i) {
				shape = "(connected-reserved-peer-unreserved)"
			}
		}
	}
	return o.kind + ":" + inv + shape
}

// ---------------------------------------------------------------- canonical state

func c30Canon(s *c30State) []byte {
	sn := c30Snapshot(s)
	var b strings.Builder
	fmt.Fprintf(&b, "ro=%t in=%d out=%d pend=%d sec=%d extra=%d|", s.ps.isReservedOnly, sn.numIn, sn.numOut, sn.pending, s.ctx.now.Second(), sn.extraNodes)
	for i, n := range sn.nodes {
		fmt.Fprintf(&b, "%t,%d,%d,", n.present, n.state, n.rep)
		if n.present && n.state == notConnected {
			fmt.Fprintf(&b, "%d", n.lastSec) // only read for not-connected nodes, and only its second-of-minute
		}
		fmt.Fprintf(&b, ",%t,%t|", sn.reserved[i], sn.noSlot[i])
	}
	return []byte(b.String())
}

// ---------------------------------------------------------------- alphabet

func c30BaseOps(thorough bool) []c30Op {
	thr := int32(BannedThresholdValue)
	deltas := []int32{math.MinInt32, thr - 1, thr, -1, 1, math.MaxInt32}
	var ops []c30Op
	for p := 0; p < 3; p++ {
		ops = append(ops, c30Op{kind: "addPeer", peers: []int{p}})
	}
	for p := 0; p < 3; p++ {
		ops = append(ops, c30Op{kind: "incoming", peers: []int{p}})
	}
	for p := 0; p < 3; p++ {
		ops = append(ops, c30Op{kind: "disconnect", peers: []int{p}})
	}
	for p := 0; p < 3; p++ {
		ops = append(ops, c30Op{kind: "removePeer", peers: []int{p}})
	}
	for p := 0; p < 3; p++ {
		ops = append(ops, c30Op{kind: "addReserved", peers: []int{p}})
	}
	for p := 0; p < 3; p++ {
		ops = append(ops, c30Op{kind: "removeReserved", peers: []int{p}})
	}
	sets := [][]int{{}, {0}, {0, 1}, {0, 1, 2}}
	if thorough {
		sets = [][]int{{}, {0}, {1}, {2}, {0, 1}, {0, 2}, {1, 2}, {0, 1, 2}}
	}
	for _, set := range sets {
		ops = append(ops, c30Op{kind: "setReserved", peers: set})
	}
	for _, d := range deltas {
		for p := 0; p < 3; p++ {
			ops = append(ops, c30Op{kind: "report", peers: []int{p}, delta: d})
		}
	}
	pairDeltas := []int32{thr - 1, -1} // the first peer falls below the threshold / stays above it
	if thorough {
		pairDeltas = deltas
	}
	for _, d := range pairDeltas {
		for p := 0; p < 3; p++ {
			for q := 0; q < 3; q++ {
				if p != q {
					ops = append(ops, c30Op{kind: "report", peers: []int{p, q}, delta: d})
				}
			}
		}
	}
	ops = append(ops, c30Op{kind: "tick", secs: 1}, c30Op{kind: "tick", secs: 3601}, c30Op{kind: "alloc"})
	return ops
}

// ---------------------------------------------------------------- R0: Reputation.add / sub

func c30Arithmetic(r *verifmc.Report) {
	thr := int64(BannedThresholdValue)
	grid := []int64{math.MinInt32, math.MinInt32 + 1, math.MinInt32 + 2, thr - 1, thr, thr + 1, -(1 << 30), -257, -256, -50, -49, -2, -1, 0,
		1, 2, 49, 50, 256, 1 << 30, math.MaxInt32 - 2, math.MaxInt32 - 1, math.MaxInt32}
	for _, a := range grid {
		for _, b := range grid {
			r.Add("arithmetic_evaluations", 2)
			if got, want := int64(Reputation(a).add(Reputation(b))), c30Clamp(a+b); got != want {
				r.Violate("Reputation.add:not-clamped-sum", fmt.Sprintf("Reputation(%d).add(%d) = %d, want %d", a, b, got, want), []any{"add", a, b})
			} else if want != a+b {
				r.Outcome("add:saturated")
			}
			if got, want := int64(Reputation(a).sub(Reputation(b))), c30Clamp(a-b); got != want {
				sig := "Reputation.sub:not-clamped-difference"
				if b == math.MinInt32 {
					sig = "Reputation.sub:subtracting-MinInt32"
				}
				r.Violate(sig, fmt.Sprintf("Reputation(%d).sub(%d) = %d, want %d", a, b, got, want), []any{"sub", a, b})
			} else if want != a-b {
				r.Outcome("sub:saturated")
			}
		}
	}
}

// ---------------------------------------------------------------- test

func TestVerif_C30(t *testing.T) {
	r := verifmc.NewReport("C30", "peerset", "model_checking")
	defer r.Write()
	logger.Patch(log.SetWriter(io.Discard), log.SetLevel(log.Critical))
	thorough := verifmc.Thorough()
	maxSlots := verifmc.Pick(uint32(2), uint32(3))
	depth := verifmc.Pick(3, 4)
	deepDepth := verifmc.Pick(4, 5)                 // quick: one level deeper for maxIn=maxOut=1 (both modes)
	if v := os.Getenv("VERIF_C30_DEPTH"); v != "" { // to reproduce a shallow counterexample faster; recorded in the rule text
		fmt.Sscan(v, &depth)
		deepDepth = depth
	}
	base := c30BaseOps(thorough)
	r.Rule = fmt.Sprintf("for every configuration maxIn,maxOut in 0..%d x reservedOnly in {false,true}: BFS over all histories of <=%d operations (<=%d for maxIn=maxOut=1) on the real PeerSet over peers p1..p3: addPeer/incoming/disconnect/removePeer/addReserved/removeReserved(p), setReserved(set) for %s, report(d;p) for d in {MinInt32, threshold-1, threshold, -1, +1, MaxInt32} and report(d;p,q) over ordered pairs for %s, tick(1s), tick(3601s), periodicAlloc; operations whose result can depend on a map iteration order are executed under all 6 peer orders; invariants S1,S2,B1,B2,R1 after every operation; Reputation.add/sub on a 23x23 boundary grid", maxSlots, depth, deepDepth,
		verifmc.Pick("the sets {},{p1},{p1,p2},{p1,p2,p3}", "all 8 subsets"), verifmc.Pick("d in {threshold-1, -1}", "the same six d"))
	r.Assumption("wall clock and order-sensitive map iterations of dot/peerset are owned through overlay rewrites (c30_hooks.go); one order per operation (all order-sensitive iterations inside one operation follow the same peer order)")
	r.Assumption("the PeerSet is driven through the methods the action loop dispatches to, not through the goroutine/channel loop itself")

	// pre-flight: the clock must be owned
	{
		s := c30Fresh(c30Cfg{1, 1, false})
		c30Apply(s, c30Op{kind: "tick", secs: 5})
		c30Apply(s, c30Op{kind: "addPeer", peers: []int{0}})
		c30Apply(s, c30Op{kind: "disconnect", peers: []int{0}})
		n := s.ps.peerState.nodes[c30Peers[0]]
		if n == nil || !n.lastConnected[0].Equal(c30Base.Add(5*time.Second)) || !s.ps.latestTimeUpdate.Equal(c30Base.Add(5*time.Second)) {
			t.Fatalf("clock not owned: rewrites not in effect")
		}
		c30Release(s)
	}

	c30Arithmetic(r)

	// L1 (prerequisite of "a reported change applies to each peer"): report must return.  Two scripted
	// probes run under a watchdog: a report naming a peer that is absent from the node table, and a
	// report naming a peer that the time update at the start of reportPeer forgets.  If a probe does
	// not return, that is recorded and reports of that shape are not executed during the exploration
	// (a blocked PeerSet cannot be explored further; the shape is predicted from the pre-state, and a
	// misprediction is caught by the watchdog of the dry run / of the explorer).
	hangAbsent, hangForgotten := false, false
	probe := func(sig, why string, cfg c30Cfg, ops []c30Op) bool {
		var names []string
		for _, o := range ops {
			names = append(names, o.Name())
		}
		fin, pmsg := verifmc.WithWatchdog(5*time.Second, func() {
			s := c30Fresh(cfg)
			for _, o := range ops {
				c30Apply(s, o)
			}
			c30Release(s)
		})
		switch {
		case !fin:
			r.Violate(sig, fmt.Sprintf("%v on a fresh PeerSet (maxIn=%d,maxOut=%d): the last operation did not return within 5s (%s)", names, cfg.maxIn, cfg.maxOut, why), names)
			r.Outcome("report:probe-hangs")
			return true
		case pmsg != "":
			r.Violate("report:panic:"+verifmc.PanicSite(pmsg), pmsg, names)
		}
		r.Outcome("report:probe-returns")
		return false
	}
	hangAbsent = probe("report:never-returns(peer-absent-from-node-table)",
		"PeersState.addReputation holds the PeersState lock and calls insertPeer, which locks it again",
		c30Cfg{1, 1, false}, []c30Op{{kind: "report", peers: []int{0}, delta: -1}})
	hangForgotten = probe("report:never-returns(peer-forgotten-by-the-time-update-of-the-same-call)",
		"updateTime forgets the peer whose reputation decayed to 0, then addReputation re-inserts it while holding the lock",
		c30Cfg{0, 0, false}, []c30Op{{kind: "addPeer", peers: []int{0}}, {kind: "tick", secs: 1}, {kind: "report", peers: []int{0}, delta: -1}})
	wouldBlock := func(s *c30State, o c30Op) bool {
		if o.kind != "report" || !(hangAbsent || hangForgotten) {
			return false
		}
		sn := c30Snapshot(s)
		for _, p := range o.peers {
			n := sn.nodes[p]
			if !n.present {
				if hangAbsent {
					return true
				}
				continue
			}
			// forgotten by updateTime: not connected, reputation decays to 0 within the pending seconds,
			// and second-of-minute of lastConnected < second-of-minute of now
			if hangForgotten && sn.pending >= 1 && n.state == notConnected && c30Decay(int64(n.rep), sn.pending) == 0 && n.lastSec < s.ctx.now.Second() {
				return true
			}
		}
		return false
	}

	var cfgs, deep []c30Cfg
	for in := uint32(0); in <= maxSlots; in++ {
		for out := uint32(0); out <= maxSlots; out++ {
			for _, ro := range []bool{false, true} {
				if in == 1 && out == 1 {
					deep = append(deep, c30Cfg{in, out, ro})
				} else {
					cfgs = append(cfgs, c30Cfg{in, out, ro})
				}
			}
		}
	}
	for _, cfg := range append(cfgs, deep...) {
		{
			{
				in, out, ro := cfg.maxIn, cfg.maxOut, cfg.reservedOnly
				cfgDepth := depth
				if in == 1 && out == 1 {
					cfgDepth = deepDepth
				}
				h := &verifmc.Hist[*c30State]{
					Fresh: func() *c30State { return c30Fresh(cfg) },
					Ops: func(s *c30State) []verifmc.Op {
						// dry run of every base operation (on replayed copies) to learn whether an
						// iteration order can matter; one watchdog goroutine for the whole batch
						var cand []c30Op
						for _, o := range base {
							if wouldBlock(s, o) {
								r.Outcome("report:not-executed(would-block)")
								continue
							}
							cand = append(cand, o)
						}
						sens := make([]bool, len(cand))
						for start := 0; start < len(cand); {
							var done int32 = int32(start)
							fin, _ := verifmc.WithWatchdog(60*time.Second, func() {
								for i := start; i < len(cand); i++ {
									if cand[i].kind != "tick" {
										d := c30Fresh(cfg)
										for _, ho := range s.hist {
											c30Apply(d, ho)
										}
										d.ctx.sensitive = false
										p, _ := verifmc.Guard(func() { c30Apply(d, cand[i]) })
										sens[i] = d.ctx.sensitive && !p
										c30Release(d)
									}
									atomic.StoreInt32(&done, int32(i+1))
								}
							})
							if fin {
								break
							}
							// cand[done] did not return: the explorer's own watchdog will report it
							start = int(atomic.LoadInt32(&done)) + 1
						}
						var ops []verifmc.Op
						for i, o := range cand {
							ops = append(ops, o)
							if sens[i] {
								for pm := 1; pm < len(c30Perms); pm++ {
									v := o
									v.perm = pm
									ops = append(ops, v)
								}
							}
						}
						return ops
					},
					Apply: func(s *c30State, op verifmc.Op) string { return c30Apply(s, op.(c30Op)) },
					Check: func(s *c30State) string {
						r.Outcome(s.last)
						return ""
					},
					Canon: c30Canon,
					Soft: func(s *c30State) []verifmc.Violation {
						v := s.soft
						s.soft = nil
						return v
					},
					Sig: func(hist []verifmc.Op, desc string) string {
						k := "init"
						if len(hist) > 0 {
							k = hist[len(hist)-1].(c30Op).kind
						}
						if strings.HasPrefix(desc, "panic") {
							return k + ":panic:" + verifmc.PanicSite(desc)
						}
						return k + ":" + desc
					},
					Release:     c30Release,
					Depth:       cfgDepth,
					ElemTimeout: 60 * time.Second, // generous: the machine may be heavily oversubscribed
				}
				before := r.Counters["states"]
				h.Explore(r)
				r.Extra[fmt.Sprintf("states[in=%d,out=%d,reservedOnly=%t]", in, out, ro)] = r.Counters["states"] - before
				if r.Expired() {
					r.Capped("deadline reached before all configurations were explored")
					return
				}
			}
		}
	}
}
