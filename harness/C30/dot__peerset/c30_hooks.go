//go:build verif

package peerset

// C30 seams (non-test file so that the rewritten peerset.go / peerstate.go can refer to them).
//
// registry.json rewrites, at check time and from the current tree:
//   time.Now()                                   -> c30Now(ps)            (receiver in scope)
//   time.Now() in newNode / newPeerSet           -> c30Unowned(); newNode(len(ps.sets)) -> c30NewNode(ps, len(ps.sets))
//   for peerID, node := range ps.nodes {         -> iteration over c30OrderNodes(ps, ps.nodes)
//   for reservePeer := range ps.reservedNode {   -> iteration over c30OrderReserved(ps, ps.reservedNode)
//   removeReservedPeers(setID, toRemove...)      -> toRemove ordered by c30OrderRemove(ps, toRemove)
// Nothing else of the package is changed.  The order hooks return a permutation of exactly the keys
// of the map (resp. elements of the slice), i.e. one of the iteration orders Go could have produced.

import (
	"sort"
	"sync"
	"time"

	"github.com/libp2p/go-libp2p/core/peer"
)

// c30Ctx is the owned environment of one PeerSet instance.
type c30Ctx struct {
	now time.Time
	// rank gives the iteration priority of a peer for order-sensitive iterations of the current
	// operation (lower first); nil = ascending peer id.
	rank map[peer.ID]int
	// sensitive is set when an iteration was reached whose result can depend on the order.
	sensitive bool
}

var c30ByObj sync.Map // *PeerSet / *PeersState -> *c30Ctx

func c30Register(ctx *c30Ctx, ps *PeerSet) {
	c30ByObj.Store(ps, ctx)
	c30ByObj.Store(ps.peerState, ctx)
}

func c30Unregister(ctx *c30Ctx, ps *PeerSet) {
	if ps != nil {
		c30ByObj.Delete(ps)
		c30ByObj.Delete(ps.peerState)
	}
}

func c30CtxOf(obj any) *c30Ctx {
	if v, ok := c30ByObj.Load(obj); ok {
		return v.(*c30Ctx)
	}
	// objects created by the package's own tests or by anything that is not the C30 harness
	panic("verif C30: clock not owned: no context registered for this PeerSet/PeersState")
}

// c30Now replaces time.Now() where the PeerSet / PeersState receiver is in scope.
func c30Now(obj any) time.Time { return c30CtxOf(obj).now }

// c30Unowned replaces time.Now() in newPeerSet and newNode, which have no receiver: it returns the
// zero time, which the next statement executed overwrites with the owned clock (c30Fresh for
// newPeerSet; c30NewNode, which replaces the calls of newNode, for new nodes).  The harness
// asserts that no zero time survives in the state.
func c30Unowned() time.Time { return time.Time{} }

// c30NewNode replaces newNode(len(ps.sets)) wherever a PeersState receiver is in scope: the node gets
// the creation time newNode would have read from the clock.
func c30NewNode(ps *PeersState, n int) *node {
	nd := newNode(n)
	now := c30CtxOf(ps).now
	for i := range nd.lastConnected {
		nd.lastConnected[i] = now
	}
	return nd
}

func c30Sorted(ctx *c30Ctx, keys []peer.ID, sensitive bool) []peer.ID {
	sort.Slice(keys, func(i, j int) bool { return keys[i] < keys[j] })
	if sensitive {
		ctx.sensitive = true
		if ctx.rank != nil {
			sort.SliceStable(keys, func(i, j int) bool { return ctx.rank[keys[i]] < ctx.rank[keys[j]] })
		}
	}
	return keys
}

// c30OrderNodes orders the iteration over PeersState.nodes (highestNotConnectedPeer, sortedPeers).
// The result of highestNotConnectedPeer depends on the order iff two not-connected nodes share the
// highest reputation (ties go to the node visited last).
func c30OrderNodes(ps *PeersState, nodes map[peer.ID]*node) []peer.ID {
	ctx := c30CtxOf(ps)
	keys := make([]peer.ID, 0, len(nodes))
	best, nBest := int64(-1)<<40, 0
	for id, n := range nodes {
		keys = append(keys, id)
		isNC := false
		for _, st := range n.state {
			if st == notConnected {
				isNC = true
			}
		}
		if isNC {
			switch r := int64(n.reputation); {
			case r > best:
				best, nBest = r, 1
			case r == best:
				nBest++
			}
		}
	}
	return c30Sorted(ctx, keys, nBest >= 2)
}

// c30OrderReserved orders the iteration over PeerSet.reservedNode in allocSlots.  The loop stops at
// the first not-connected reserved peer below the ban threshold, so the order matters iff such a
// peer exists next to another reserved peer that is not connected.
func c30OrderReserved(ps *PeerSet, m map[peer.ID]struct{}) []peer.ID {
	ctx := c30CtxOf(ps)
	keys := make([]peer.ID, 0, len(m))
	unconnected, banned := 0, 0
	for id := range m {
		keys = append(keys, id)
		n, ok := ps.peerState.nodes[id]
		conn := false
		if ok {
			for _, st := range n.state {
				if st == ingoing || st == outgoing {
					conn = true
				}
			}
		}
		if !conn {
			unconnected++
			if ok && n.reputation < BannedThresholdValue {
				banned++
			}
		}
	}
	return c30Sorted(ctx, keys, unconnected >= 2 && banned >= 1)
}

// c30OrderRemove orders the peers that setReservedPeer hands to removeReservedPeers (their order is
// the iteration order of the reservedNode map in the unmodified code).
func c30OrderRemove(ps *PeerSet, s []peer.ID) []peer.ID {
	ctx := c30CtxOf(ps)
	keys := append([]peer.ID{}, s...)
	return c30Sorted(ctx, keys, len(keys) >= 2)
}
