//go:build verif

package types_test

// C14 (part types): chain data structures of dot/types encode as the specification defines.
//
// Statement clauses and the oracle clause that implements each:
//  (a) "... all round-trip through their wire encodings"
//      -> for every enumerated abstract value: the reference encoding (plain byte appends,
//         internal/verifmc/ref c14_wire.go / c14_chain.go) is decoded by the real code and the decoded
//         Go value is compared with the description it was generated from; the Go value built from
//         the description is encoded by the real code.
//  (b) "Each encoding matches an independent reference encoder byte for byte"
//      -> real encoding == reference bytes.
//  (c) "A header's hash is BLAKE2b-256 of its encoding"
//      -> Header.Hash() == blake2b-256(reference bytes), for a fresh header, for NewHeader, for a
//         decoded header, and again after a field of a header whose hash was already asked for changed.
// Values outside the specification's domain are not judged: block numbers above the u32 block number
// of Polkadot are encoded and counted as outcomes only.

import (
	"bytes"
	"fmt"
	"reflect"
	"testing"

	"github.com/ChainSafe/gossamer/dot/types"
	"github.com/ChainSafe/gossamer/internal/verifmc"
	"github.com/ChainSafe/gossamer/internal/verifmc/ref"
	"github.com/ChainSafe/gossamer/lib/common"
	"github.com/ChainSafe/gossamer/lib/crypto/ed25519"
	"github.com/ChainSafe/gossamer/pkg/scale"
)

func c14DigestShape(items []ref.C14Item) string {
	s := ""
	for i, it := range items {
		if i > 0 {
			s += ","
		}
		s += map[int]string{0: "Other", 4: "Consensus", 5: "Seal", 6: "PreRuntime", 8: "RuntimeEnvironmentUpdated"}[it.Kind]
	}
	return "[" + s + "]"
}

func c14KindsIn(items []ref.C14Item) string {
	seen := map[int]bool{}
	s := ""
	for _, it := range items {
		if !seen[it.Kind] {
			seen[it.Kind] = true
			s += map[int]string{0: "Other", 4: "Consensus", 5: "Seal", 6: "PreRuntime", 8: "RuntimeEnvironmentUpdated"}[it.Kind] + "+"
		}
	}
	if s == "" {
		return "empty-digest"
	}
	return s[:len(s)-1]
}

// c14CheckHeader evaluates all header clauses on one abstract header.
func c14CheckHeader(r *verifmc.Report, h ref.C14Header) {
	want := ref.C14RefHeader(h).B
	wantHash := ref.Blake256(want)
	replay := map[string]any{"header": h.String(), "reference_encoding": verifmc.Hex(want)}
	r.Add("evaluations", 1)
	r.Distinct("header|" + c14DigestShape(h.Items) + fmt.Sprint(h.Number))
	hasOther := !ref.C14Representable(h)

	// decode direction: specification bytes -> real value
	dec := types.NewEmptyHeader()
	var derr error
	if p, pm := verifmc.Guard(func() { derr = scale.Unmarshal(want, dec) }); p {
		r.Violate("Header.decode:panic:"+verifmc.PanicSite(pm), "decoding a specification-conforming header panics: "+pm, replay)
		return
	}
	switch {
	case derr != nil && hasOther:
		r.Outcome("decode:other-digest-rejected")
		r.Violate("Header.decode:digest-item-Other-rejected",
			fmt.Sprintf("a header whose digest holds an Other item (index 0, defined by the specification) cannot be decoded: %v; digest %s", derr, c14DigestShape(h.Items)), replay)
	case derr != nil:
		r.Outcome("decode:rejected")
		r.Violate("Header.decode:valid-header-rejected:"+c14KindsIn(h.Items), fmt.Sprintf("reference encoding of %s is rejected: %v", h, derr), replay)
	default:
		got, aerr := c14AbstractHeader(dec)
		switch {
		case aerr != nil:
			r.Outcome("decode:unreadable")
			r.Violate("Header.decode:decoded-digest-unreadable", fmt.Sprintf("%s decodes to a header whose digest cannot be read back: %v", h, aerr), replay)
		case !ref.C14SameHeader(got, h):
			r.Outcome("decode:differs")
			r.Violate("Header.decode:decoded-header-differs:"+c14KindsIn(h.Items), fmt.Sprintf("reference encoding of %s decodes to %s", h, got), replay)
		default:
			r.Outcome("decode:equal")
		}
		if aerr == nil {
			re, err := scale.Marshal(*dec)
			if err != nil || !bytes.Equal(re, want) {
				r.Violate("Header.roundtrip:decode-then-encode-differs:"+c14KindsIn(h.Items), fmt.Sprintf("decode then encode of %s gives %x (err %v)", h, re, err), replay)
			}
			if hh := dec.Hash(); !bytes.Equal(hh[:], wantHash) {
				r.Violate("Header.Hash:decoded-header-hash-differs", fmt.Sprintf("Hash() of the decoded %s is %x, BLAKE2b-256 of its encoding is %x", h, hh[:], wantHash), replay)
			}
		}
	}

	// encode direction: real value built through the API -> bytes
	if hasOther {
		r.Outcome("encode:not-representable(Other)")
		return
	}
	hdr, err := c14BuildHeader(h)
	if err != nil {
		r.Violate("Header.build:api-rejects-specified-item", err.Error(), replay)
		return
	}
	enc, err := scale.Marshal(*hdr)
	if err != nil {
		r.Violate("Header.encode:error:"+c14KindsIn(h.Items), fmt.Sprintf("encoding %s fails: %v", h, err), replay)
		return
	}
	if !bytes.Equal(enc, want) {
		r.Outcome("encode:differs")
		r.Violate("Header.encode:bytes-differ-from-reference:"+c14KindsIn(h.Items), fmt.Sprintf("%s encodes to %x, reference %x", h, enc, want), replay)
	} else {
		r.Outcome("encode:equal")
	}
	if hh := hdr.Hash(); !bytes.Equal(hh[:], wantHash) {
		r.Violate("Header.Hash:not-blake2b-of-encoding", fmt.Sprintf("Hash() of %s is %x, BLAKE2b-256 of the reference encoding is %x", h, hh[:], wantHash), replay)
	} else {
		r.Outcome("hash:equal")
	}
	d2, _ := c14BuildDigest(h.Items)
	if nh := types.NewHeader(h.Parent, h.StateRoot, h.ExtrinsicsRoot, uint(h.Number), d2); !bytes.Equal(nh.Hash().ToBytes(), wantHash) {
		r.Violate("Header.Hash:NewHeader-hash-differs", fmt.Sprintf("NewHeader(%s).Hash() = %s", h, nh.Hash()), replay)
	}
}

// c14CheckDecodeIntoUsed: a header object whose hash was already asked for is the destination of a
// decode of ANOTHER header's encoding (a reused buffer object): afterwards it must encode to that
// encoding and Hash() must be BLAKE2b-256 of it.
func c14CheckDecodeIntoUsed(r *verifmc.Report, first, second ref.C14Header) {
	hdr, err := c14BuildHeader(first)
	if err != nil {
		return
	}
	_ = hdr.Hash()
	enc2 := ref.C14RefHeader(second).B
	r.Add("evaluations", 1)
	if err := scale.Unmarshal(enc2, hdr); err != nil {
		r.Outcome("decode-into-used-header:error")
		r.Violate("Header.decode-into-used-header:error", fmt.Sprintf("decoding the reference encoding of %s into a header that held %s fails: %v", second, first, err), nil)
		return
	}
	if enc, _ := scale.Marshal(*hdr); !bytes.Equal(enc, enc2) {
		r.Violate("Header.decode-into-used-header:re-encoding-differs", fmt.Sprintf("after decoding %x into a header that held %s it encodes to %x", enc2, first, enc), nil)
	}
	want := ref.Blake256(enc2)
	if got := hdr.Hash(); !bytes.Equal(got[:], want) {
		r.Outcome("decode-into-used-header:stale-hash")
		r.Violate("Header.Hash:stale-after-decoding-into-a-used-header",
			fmt.Sprintf("Hash() was called on a header holding %s, then the encoding of %s was decoded into the same object: Hash() returns %x, BLAKE2b-256 of the decoded encoding is %x", first, second, got[:], want),
			map[string]any{"first": first.String(), "second": second.String()})
	} else {
		r.Outcome("decode-into-used-header:fresh-hash")
	}
}

// c14CheckStaleHash: Hash() after changing a field of a header whose hash was already computed.
func c14CheckStaleHash(r *verifmc.Report, h ref.C14Header) {
	type mut struct {
		name  string
		apply func(hdr *types.Header, a *ref.C14Header)
	}
	muts := []mut{
		{"Number", func(hdr *types.Header, a *ref.C14Header) { hdr.Number++; a.Number++ }},
		{"ParentHash", func(hdr *types.Header, a *ref.C14Header) { hdr.ParentHash[0] ^= 0xff; a.Parent[0] ^= 0xff }},
		{"StateRoot", func(hdr *types.Header, a *ref.C14Header) { hdr.StateRoot[31] ^= 1; a.StateRoot[31] ^= 1 }},
		{"ExtrinsicsRoot", func(hdr *types.Header, a *ref.C14Header) { hdr.ExtrinsicsRoot[5] ^= 1; a.ExtrinsicsRoot[5] ^= 1 }},
		{"Digest(seal appended)", func(hdr *types.Header, a *ref.C14Header) {
			seal := ref.C14Item{Kind: ref.C14KindSeal, Engine: [4]byte{'B', 'A', 'B', 'E'}, Data: ref.C14Fill(64, 7, 1)}
			_ = hdr.Digest.Add(types.SealDigest{ConsensusEngineID: seal.Engine, Data: seal.Data})
			a.Items = append(append([]ref.C14Item{}, a.Items...), seal)
		}},
	}
	for _, m := range muts {
		hdr, err := c14BuildHeader(h)
		if err != nil {
			return
		}
		a := h
		_ = hdr.Hash() // hash asked for once
		m.apply(hdr, &a)
		want := ref.Blake256(ref.C14RefHeader(a).B)
		got := hdr.Hash()
		r.Add("evaluations", 1)
		enc, _ := scale.Marshal(*hdr)
		if !bytes.Equal(enc, ref.C14RefHeader(a).B) {
			r.Violate("Header.encode:bytes-differ-from-reference-after-change", fmt.Sprintf("%s after changing %s encodes to %x", h, m.name, enc), nil)
		}
		if !bytes.Equal(got[:], want) {
			r.Outcome("hash-after-change:stale")
			r.Violate("Header.Hash:stale-after-field-change",
				fmt.Sprintf("Hash() was called, then %s was changed: Hash() still returns %x (the hash of the old contents), BLAKE2b-256 of the current encoding is %x", m.name, got[:], want),
				map[string]any{"header": h.String(), "changed_field": m.name})
		} else {
			r.Outcome("hash-after-change:fresh")
		}
	}
}

func c14Auths(n int) ([]types.AuthorityRaw, []types.GrandpaAuthoritiesRaw, func(b *ref.C14Buf)) {
	var a []types.AuthorityRaw
	var g []types.GrandpaAuthoritiesRaw
	weights := []uint64{1, 1<<64 - 1}
	for i := 0; i < n; i++ {
		k := ref.C14Hash32(byte(0x21*(i+1)), 1)
		a = append(a, types.AuthorityRaw{Key: k, Weight: weights[i%2]})
		g = append(g, types.GrandpaAuthoritiesRaw{Key: k, ID: weights[i%2]})
	}
	return a, g, func(b *ref.C14Buf) {
		b.Len(n, "authority-count")
		for i := 0; i < n; i++ {
			k := ref.C14Hash32(byte(0x21*(i+1)), 1)
			b.Raw(k[:]...).U64(weights[i%2])
		}
	}
}

// c14Enum: one value of a SCALE enum type: the real value (set in a fresh VDT by mk), the reference bytes.
type c14Case struct {
	name string
	want []byte
	enc  func() ([]byte, error)       // real encoder
	dec  func(in []byte) (any, error) // real decoder
	val  any                          // expected decoded value (built from the description, not by decoding)
}

func c14RunCases(r *verifmc.Report, family string, cases []c14Case) {
	for _, c := range cases {
		r.Add("evaluations", 1)
		r.Distinct(family + "|" + c.name)
		replay := map[string]any{"type": family, "value": c.name, "reference_encoding": verifmc.Hex(c.want)}
		if c.enc != nil {
			var enc []byte
			var err error
			if p, pm := verifmc.Guard(func() { enc, err = c.enc() }); p {
				r.Violate(family+".encode:panic", pm, replay)
			} else if err != nil {
				r.Outcome(family + ":encode-error")
				r.Violate(family+".encode:error", fmt.Sprintf("%s %s: %v", family, c.name, err), replay)
			} else if !bytes.Equal(enc, c.want) {
				r.Outcome(family + ":encode-differs")
				r.Violate(family+".encode:bytes-differ-from-reference", fmt.Sprintf("%s %s encodes to %x, reference %x", family, c.name, enc, c.want), replay)
			} else {
				r.Outcome(family + ":encode-equal")
			}
		}
		if c.dec != nil {
			var got any
			var err error
			if p, pm := verifmc.Guard(func() { got, err = c.dec(append([]byte{}, c.want...)) }); p {
				r.Violate(family+".decode:panic", pm, replay)
			} else if err != nil {
				r.Outcome(family + ":decode-rejected")
				r.Violate(family+".decode:valid-encoding-rejected", fmt.Sprintf("%s %s: reference encoding %x rejected: %v", family, c.name, c.want, err), replay)
			} else if cls, det := ref.C33FirstDiff(ref.C33Dump(c.val), ref.C33Dump(got)); cls != "" {
				r.Outcome(family + ":decode-differs")
				r.Violate(family+".decode:decoded-value-differs-at:"+cls, fmt.Sprintf("%s %s: %s", family, c.name, det), replay)
			} else {
				r.Outcome(family + ":decode-equal")
			}
		}
	}
}

func c14BabeCases() []c14Case {
	var out []c14Case
	for _, ai := range []uint32{0, 1, 1<<32 - 1} {
		for _, slot := range []uint64{0, 1, 1 << 32, 1<<64 - 1} {
			for _, pat := range []byte{0, 0x11} {
				vo := ref.C14Hash32(pat, pat)
				var vp [64]byte
				copy(vp[:], ref.C14Fill(64, pat+1, pat))
				vals := []any{
					types.BabePrimaryPreDigest{AuthorityIndex: ai, SlotNumber: slot, VRFOutput: vo, VRFProof: vp},
					types.BabeSecondaryPlainPreDigest{AuthorityIndex: ai, SlotNumber: slot},
					types.BabeSecondaryVRFPreDigest{AuthorityIndex: ai, SlotNumber: slot, VrfOutput: vo, VrfProof: vp},
				}
				for k, v := range vals {
					v := v
					b := (&ref.C14Buf{}).U8(byte(k + 1)).U32(ai).U64(slot)
					if k != 1 {
						b.Raw(vo[:]...).Raw(vp[:]...)
					}
					want := b.B
					out = append(out, c14Case{
						name: fmt.Sprintf("%T{auth=%d slot=%d pat=%02x}", v, ai, slot, pat), want: want, val: v,
						enc: func() ([]byte, error) {
							d := types.NewBabeDigest()
							if err := d.SetValue(v); err != nil {
								return nil, err
							}
							return scale.Marshal(d)
						},
						dec: func(in []byte) (any, error) { return types.DecodeBabePreDigest(in) },
					})
					// the same through ToPreRuntimeDigest: engine id BABE, data = the encoding
					out = append(out, c14Case{
						name: fmt.Sprintf("ToPreRuntimeDigest(%T{auth=%d slot=%d pat=%02x})", v, ai, slot, pat), want: want,
						enc: func() ([]byte, error) {
							var p *types.PreRuntimeDigest
							var err error
							switch x := v.(type) {
							case types.BabePrimaryPreDigest:
								p, err = x.ToPreRuntimeDigest()
							case types.BabeSecondaryPlainPreDigest:
								p, err = x.ToPreRuntimeDigest()
							case types.BabeSecondaryVRFPreDigest:
								p, err = x.ToPreRuntimeDigest()
							}
							if err != nil {
								return nil, err
							}
							if p.ConsensusEngineID != types.BabeEngineID {
								return nil, fmt.Errorf("engine id %s", p.ConsensusEngineID)
							}
							return p.Data, nil
						},
					})
				}
			}
		}
	}
	return out
}

func c14ConsensusCases() (babe, grandpa []c14Case) {
	for n := 0; n <= 2; n++ {
		a, g, refAuths := c14Auths(n)
		rnd := ref.C14Hash32(byte(n), 9)
		{
			v := types.NextEpochData{Authorities: a, Randomness: rnd}
			b := (&ref.C14Buf{}).U8(1)
			refAuths(b)
			b.Raw(rnd[:]...)
			babe = append(babe, c14VdtCase(fmt.Sprintf("NextEpochData{%d authorities}", n), b.B, v, func() c14Vdt { x := types.NewBabeConsensusDigest(); return &x }))
		}
		for _, delay := range []uint32{0, 1<<32 - 1} {
			v := types.GrandpaScheduledChange{Auths: g, Delay: delay}
			b := (&ref.C14Buf{}).U8(1)
			refAuths(b)
			b.U32(delay)
			grandpa = append(grandpa, c14VdtCase(fmt.Sprintf("ScheduledChange{%d auths, delay %d}", n, delay), b.B, v, func() c14Vdt { x := types.NewGrandpaConsensusDigest(); return &x }))
			v2 := types.GrandpaForcedChange{BestFinalizedBlock: delay ^ 0x01020304, Auths: g, Delay: delay}
			b2 := (&ref.C14Buf{}).U8(2).U32(delay ^ 0x01020304)
			refAuths(b2)
			b2.U32(delay)
			grandpa = append(grandpa, c14VdtCase(fmt.Sprintf("ForcedChange{%d auths, delay %d}", n, delay), b2.B, v2, func() c14Vdt { x := types.NewGrandpaConsensusDigest(); return &x }))
		}
	}
	for _, id := range []uint32{0, 1, 1<<32 - 1} {
		babe = append(babe, c14VdtCase(fmt.Sprintf("BABEOnDisabled{%d}", id), (&ref.C14Buf{}).U8(2).U32(id).B, types.BABEOnDisabled{ID: id}, func() c14Vdt { x := types.NewBabeConsensusDigest(); return &x }))
		grandpa = append(grandpa, c14VdtCase(fmt.Sprintf("GrandpaPause{%d}", id), (&ref.C14Buf{}).U8(4).U32(id).B, types.GrandpaPause{Delay: id}, func() c14Vdt { x := types.NewGrandpaConsensusDigest(); return &x }))
		grandpa = append(grandpa, c14VdtCase(fmt.Sprintf("GrandpaResume{%d}", id), (&ref.C14Buf{}).U8(5).U32(id).B, types.GrandpaResume{Delay: id}, func() c14Vdt { x := types.NewGrandpaConsensusDigest(); return &x }))
	}
	for _, id := range []uint64{0, 1, 1<<64 - 1} {
		grandpa = append(grandpa, c14VdtCase(fmt.Sprintf("GrandpaOnDisabled{%d}", id), (&ref.C14Buf{}).U8(3).U64(id).B, types.GrandpaOnDisabled{ID: id}, func() c14Vdt { x := types.NewGrandpaConsensusDigest(); return &x }))
	}
	for _, c1 := range []uint64{0, 1, 1<<64 - 1} {
		for _, ss := range []byte{0, 1, 2} {
			inner := types.NewVersionedNextConfigData()
			_ = inner.SetValue(types.NextConfigDataV1{C1: c1, C2: c1 ^ 4, SecondarySlots: ss})
			b := (&ref.C14Buf{}).U8(3).U8(1).U64(c1).U64(c1 ^ 4).U8(ss)
			babe = append(babe, c14VdtCase(fmt.Sprintf("NextConfigData V1{c1=%d c2=%d slots=%d}", c1, c1^4, ss), b.B, inner, func() c14Vdt { x := types.NewBabeConsensusDigest(); return &x }))
		}
	}
	return babe, grandpa
}

type c14Vdt interface {
	SetValue(value any) error
	Value() (any, error)
}

// c14VdtCase: encode = SetValue(v) on a fresh enum + Marshal; decode = Unmarshal into a fresh enum + Value().
func c14VdtCase(name string, want []byte, v any, fresh func() c14Vdt) c14Case {
	return c14Case{name: name, want: want, val: v,
		enc: func() ([]byte, error) {
			d := fresh()
			if err := d.SetValue(v); err != nil {
				return nil, err
			}
			return scale.Marshal(reflect.ValueOf(d).Elem().Interface())
		},
		dec: func(in []byte) (any, error) {
			d := fresh()
			if err := scale.Unmarshal(in, d); err != nil {
				return nil, err
			}
			return d.Value()
		},
	}
}

func c14GrandpaTypeCases() []c14Case {
	var out []c14Case
	for _, num := range []uint32{0, 1, 1<<32 - 1} {
		for _, pat := range []byte{0, 0x31} {
			hash := common.Hash(ref.C14Hash32(pat, 1))
			var sig [64]byte
			copy(sig[:], ref.C14Fill(64, pat+2, 3))
			auth := ed25519.PublicKeyBytes(ref.C14Hash32(pat+9, 2))
			vote := types.GrandpaVote{Hash: hash, Number: num}
			vb := (&ref.C14Buf{}).Raw(hash[:]...).U32(num)
			out = append(out, c14PlainCase(fmt.Sprintf("GrandpaVote{%02x.. %d}", pat, num), vb.B, vote, func() any { return &types.GrandpaVote{} }))
			sv := types.GrandpaSignedVote{Vote: vote, Signature: sig, AuthorityID: auth}
			sb := vb.Clone().Raw(sig[:]...).Raw(auth[:]...)
			out = append(out, c14PlainCase(fmt.Sprintf("GrandpaSignedVote{%02x.. %d}", pat, num), sb.B, sv, func() any { return &types.GrandpaSignedVote{} }))
			for stage := 0; stage < 2; stage++ {
				eq := types.GrandpaEquivocation{RoundNumber: uint64(num) << 7, ID: auth, FirstVote: vote, FirstSignature: sig,
					SecondVote: types.GrandpaVote{Hash: common.Hash(ref.C14Hash32(pat+1, 1)), Number: num ^ 1}, SecondSignature: sig}
				enum := types.NewGrandpaEquivocation()
				if stage == 0 {
					_ = enum.SetValue(types.PreVote(eq))
				} else {
					_ = enum.SetValue(types.PreCommit(eq))
				}
				proof := types.GrandpaEquivocationProof{SetID: uint64(pat), Equivocation: *enum}
				h2 := ref.C14Hash32(pat+1, 1)
				pb := (&ref.C14Buf{}).U64(uint64(pat)).U8(byte(stage)).U64(uint64(num) << 7).Raw(auth[:]...).
					Raw(hash[:]...).U32(num).Raw(sig[:]...).Raw(h2[:]...).U32(num ^ 1).Raw(sig[:]...)
				out = append(out, c14PlainCase(fmt.Sprintf("GrandpaEquivocationProof{stage %d, %02x.. %d}", stage, pat, num), pb.B, proof, func() any { return &types.GrandpaEquivocationProof{} }))
			}
		}
	}
	return out
}

// c14PlainCase: scale.Marshal(v) / scale.Unmarshal into fresh().
func c14PlainCase(name string, want []byte, v any, fresh func() any) c14Case {
	return c14Case{name: name, want: want, val: v,
		enc: func() ([]byte, error) { return scale.Marshal(v) },
		dec: func(in []byte) (any, error) {
			p := fresh()
			if err := scale.Unmarshal(in, p); err != nil {
				return nil, err
			}
			return reflect.ValueOf(p).Elem().Interface(), nil
		},
	}
}

func c14BodyCases(lens []int) []c14Case {
	var out []c14Case
	for _, exts := range ref.C14BodyMenu(lens, 2) {
		exts := exts
		want := ref.C14RefBody(exts).B
		var te []types.Extrinsic
		for _, e := range exts {
			te = append(te, types.Extrinsic(e))
		}
		body := types.NewBody(te)
		name := fmt.Sprintf("Body%v", func() (l []int) {
			for _, e := range exts {
				l = append(l, len(e))
			}
			return
		}())
		out = append(out, c14Case{name: name, want: want, val: *body,
			enc: func() ([]byte, error) { return scale.Marshal(*body) },
			dec: func(in []byte) (any, error) {
				b, err := types.NewBodyFromBytes(in)
				if err != nil {
					return nil, err
				}
				return *b, nil
			}})
		// the protobuf form: each extrinsic SCALE encoded on its own
		var each [][]byte
		for _, e := range exts {
			each = append(each, (&ref.C14Buf{}).Bytes(e, "x").B)
		}
		out = append(out, c14Case{name: name + " via AsEncodedExtrinsics/NewBodyFromEncodedBytes", want: bytes.Join(each, nil), val: *body,
			enc: func() ([]byte, error) {
				ee, err := body.AsEncodedExtrinsics()
				if err != nil {
					return nil, err
				}
				return bytes.Join(types.ExtrinsicsArrayToBytesArray(ee), nil), nil
			},
			dec: func([]byte) (any, error) {
				b, err := types.NewBodyFromEncodedBytes(each)
				if err != nil {
					return nil, err
				}
				return *b, nil
			}})
	}
	return out
}

func TestVerif_C14_types(t *testing.T) {
	r := verifmc.NewReport("C14", "types", "exploration")
	defer r.Write()
	maxDigest := verifmc.Pick(2, 3)
	menu := ref.C14ItemMenu([]int{0, 1, 64}) // thorough adds data lengths 63, 16383, 16384 in digests of length 2 (below)
	r.Rule = fmt.Sprintf("headers: digests of length 0..%d over %d items (every specified kind x 3 engine ids x data lengths) x block numbers at every compact mode boundary within u32 x 2 hash patterns; "+
		"a case is non-trivial when its (digest shape, number) or (type, value) differs; bodies of 0..2 extrinsics; every BABE pre-digest, BABE/GRANDPA consensus digest and GRANDPA vote type over boundary field values; "+
		"each value: real encoding vs reference bytes, reference bytes decoded and compared with the description, Hash vs BLAKE2b-256 of the reference bytes", maxDigest, len(menu))
	r.Assumption("reference encoder internal/verifmc/ref (c14_wire.go, c14_chain.go) follows the Polkadot specification; BLAKE2b from golang.org/x/crypto")

	// self-check of the reference against a constant of the specification's test vectors:
	// Compact(1) = 04, Compact(64) = 0101, Compact(16384) = 02000100, Compact(2^30) = 0300000040
	for _, kv := range [][2]string{{"1", "04"}, {"64", "0101"}, {"16384", "02000100"}, {"1073741824", "0300000040"}} {
		var n uint64
		fmt.Sscan(kv[0], &n)
		if verifmc.Hex(ref.Compact(n)) != kv[1] {
			t.Fatalf("reference compact(%d) = %x", n, ref.Compact(n))
		}
	}

	// ---- headers
	var headers []ref.C14Header
	var rec func(items []ref.C14Item)
	patterns := [][3][32]byte{{}, {ref.C14Hash32(1, 1), ref.C14Hash32(0x40, 3), ref.C14Hash32(0x80, 5)}}
	rec = func(items []ref.C14Item) {
		for _, n := range ref.C14Numbers() {
			for _, p := range patterns {
				headers = append(headers, ref.C14Header{Parent: p[0], StateRoot: p[1], ExtrinsicsRoot: p[2], Number: n, Items: append([]ref.C14Item{}, items...)})
			}
		}
		if len(items) == maxDigest {
			return
		}
		for _, it := range menu {
			rec(append(items, it))
		}
	}
	rec(nil)
	if verifmc.Thorough() {
		for _, it := range ref.C14ItemMenu([]int{63, 16383, 16384}) {
			for _, it2 := range ref.C14ItemMenu([]int{63}) {
				headers = append(headers, ref.C14Header{Number: 7, Items: []ref.C14Item{it, it2}})
			}
		}
	}
	verifmc.ParallelFor(r, len(headers), func(i int) { c14CheckHeader(r, headers[i]) }, func(i int, msg string) {
		r.Violate("harness:panic", msg, headers[i].String())
	})
	for i, h := range headers {
		if i%97 == 0 && ref.C14Representable(h) { // every 97th header (deterministic stride) x 5 field changes
			c14CheckStaleHash(r, h)
		}
		if i%7 == 0 && ref.C14Representable(h) && ref.C14Representable(headers[(i+1)%len(headers)]) {
			c14CheckDecodeIntoUsed(r, h, headers[(i+1)%len(headers)])
		}
	}
	r.Sample(map[string]any{"header": headers[len(headers)/2].String(), "reference_encoding": verifmc.Hex(ref.C14RefHeader(headers[len(headers)/2]).B)})

	// numbers beyond the u32 block number: outside the specification's domain, observed only
	for _, n := range []uint64{1 << 32, 1<<56 - 1, 1 << 56, 1<<64 - 1} {
		h := ref.C14Header{Number: n}
		want := ref.C14RefHeader(h).B
		hdr, _ := c14BuildHeader(h)
		enc, err := scale.Marshal(*hdr)
		dec := types.NewEmptyHeader()
		derr := scale.Unmarshal(want, dec)
		r.Outcome(fmt.Sprintf("number-beyond-u32(not judged): encode-equal=%t decode-ok=%t", err == nil && bytes.Equal(enc, want), derr == nil && uint64(dec.Number) == n))
		r.Add("not_judged_out_of_domain", 1)
	}

	// ---- the other types
	c14RunCases(r, "Body", c14BodyCases(verifmc.Pick([]int{0, 1, 64}, []int{0, 1, 63, 64, 16384})))
	c14RunCases(r, "BabePreDigest", c14BabeCases())
	bc, gc := c14ConsensusCases()
	c14RunCases(r, "BabeConsensusDigest", bc)
	c14RunCases(r, "GrandpaConsensusDigest", gc)
	c14RunCases(r, "GrandpaTypes", c14GrandpaTypeCases())

	// GRANDPA voters list (EncodeGrandpaVoters / DecodeGrandpaVoters): Vec<(key[32], id u64)>
	for n := 0; n <= 2; n++ {
		var voters types.GrandpaVoters
		b := (&ref.C14Buf{}).Len(n, "voters")
		for i := 0; i < n; i++ {
			k := ref.C14Hash32(byte(3+i), 7)
			pk, err := ed25519.NewPublicKey(k[:])
			if err != nil {
				t.Fatal(err)
			}
			voters = append(voters, types.GrandpaVoter{Key: *pk, ID: uint64(i) << 60})
			b.Raw(k[:]...).U64(uint64(i) << 60)
		}
		v := voters
		c14RunCases(r, "GrandpaVoters", []c14Case{{name: fmt.Sprintf("%d voters", n), want: b.B, val: v,
			enc: func() ([]byte, error) { return types.EncodeGrandpaVoters(v) },
			dec: func(in []byte) (any, error) { return types.DecodeGrandpaVoters(in) }}})
	}
}
