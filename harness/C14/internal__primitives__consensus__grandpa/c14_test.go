//go:build verif

package grandpa

// C14 (part primitives): the generic GRANDPA primitives (internal/primitives/consensus/grandpa over
// pkg/finality-grandpa) instantiated as Polkadot uses them (H256 hash, u32 number) encode as the
// specification defines:
//   Message        = 0x00 Prevote(hash, number) | 0x01 Precommit(hash, number) | 0x02 PrimaryPropose(hash, number)
//   SignedMessage  = Message ++ signature[64] ++ id[32]
//   SignedPrecommit= hash ++ number ++ signature[64] ++ id[32]
//   Commit         = hash ++ number ++ Vec<SignedPrecommit>
//   Justification  = round u64 ++ Commit ++ Vec<Header>            (ancestry: empty list here)
//   signed payload = Message ++ round u64 ++ set_id u64
//   ScheduledChange= Vec<(id[32], weight u64)> ++ delay(number)
// Hash equality is judged on the 32 bytes the hash denotes (H256 is a Go string that may be shorter).

import (
	"bytes"
	"fmt"
	"testing"

	"github.com/ChainSafe/gossamer/internal/primitives/core/hash"
	"github.com/ChainSafe/gossamer/internal/primitives/runtime"
	"github.com/ChainSafe/gossamer/internal/verifmc"
	"github.com/ChainSafe/gossamer/internal/verifmc/ref"
	finality "github.com/ChainSafe/gossamer/pkg/finality-grandpa"
	"github.com/ChainSafe/gossamer/pkg/scale"
)

type c14PMsg = finality.Message[hash.H256, uint32]
type c14PSigned = SignedMessage[hash.H256, uint32]
type c14PCommit = Commit[hash.H256, uint32]
type c14PJust = GrandpaJustification[hash.H256, uint32]

func c14PCheck(r *verifmc.Report, family, name string, want []byte, enc func() ([]byte, error), dec func([]byte) ([]byte, error)) {
	r.Add("evaluations", 1)
	r.Distinct(family + "|" + name)
	replay := map[string]any{"type": family, "value": name, "reference_encoding": verifmc.Hex(want)}
	var got []byte
	var err error
	if p, pm := verifmc.Guard(func() { got, err = enc() }); p {
		r.Violate(family+".encode:panic:"+verifmc.PanicSite(pm), pm, replay)
	} else if err != nil {
		r.Violate(family+".encode:error", fmt.Sprintf("%s: %v", name, err), replay)
	} else if !bytes.Equal(got, want) {
		r.Outcome(family + ":encode-differs")
		r.Violate(family+".encode:bytes-differ-from-reference", fmt.Sprintf("%s encodes to %x, reference %x", name, got, want), replay)
	} else {
		r.Outcome(family + ":encode-equal")
	}
	if dec == nil {
		return
	}
	// decode: the decoded value is rendered field by field with the reference writer by dec
	if p, pm := verifmc.Guard(func() { got, err = dec(append([]byte{}, want...)) }); p {
		r.Violate(family+".decode:panic:"+verifmc.PanicSite(pm), pm, replay)
	} else if err != nil {
		r.Outcome(family + ":decode-rejected")
		r.Violate(family+".decode:valid-encoding-rejected", fmt.Sprintf("%s: reference encoding %x rejected: %v", name, want, err), replay)
	} else if !bytes.Equal(got, want) {
		r.Outcome(family + ":decode-differs")
		r.Violate(family+".decode:decoded-value-differs", fmt.Sprintf("%s: decoded fields render to %x, expected %x", name, got, want), replay)
	} else {
		r.Outcome(family + ":decode-equal")
	}
}

func c14PHash(h hash.H256) []byte {
	var a [32]byte
	copy(a[:], []byte(h))
	return a[:]
}

// c14PRenderMsg writes the fields of a decoded Message with the reference writer.
func c14PRenderMsg(b *ref.C14Buf, m c14PMsg) error {
	v, err := m.Value()
	if err != nil {
		return err
	}
	switch x := v.(type) {
	case finality.Prevote[hash.H256, uint32]:
		b.U8(0).Raw(c14PHash(x.TargetHash)...).U32(x.TargetNumber)
	case finality.Precommit[hash.H256, uint32]:
		b.U8(1).Raw(c14PHash(x.TargetHash)...).U32(x.TargetNumber)
	case finality.PrimaryPropose[hash.H256, uint32]:
		b.U8(2).Raw(c14PHash(x.TargetHash)...).U32(x.TargetNumber)
	default:
		return fmt.Errorf("message of type %T", v)
	}
	return nil
}

func c14PRenderCommit(b *ref.C14Buf, c c14PCommit) {
	b.Raw(c14PHash(c.TargetHash)...).U32(c.TargetNumber).Len(len(c.Precommits), "precommits")
	for _, p := range c.Precommits {
		b.Raw(c14PHash(p.Precommit.TargetHash)...).U32(p.Precommit.TargetNumber).Raw(p.Signature[:]...).Raw(p.ID[:]...)
	}
}

func TestVerif_C14_primitives(t *testing.T) {
	r := verifmc.NewReport("C14", "primitives", "exploration")
	defer r.Write()
	r.Rule = "messages of 3 kinds x number {0,1,2^32-1} x 2 hash patterns, signed messages, commits and justifications with 0..2 precommits, signed payloads over round/set id {0,1,2^64-1}, scheduled changes with 0..2 authorities; real encoding vs reference bytes; decoded fields re-rendered by the reference writer vs reference bytes"
	r.Assumption("reference encoder internal/verifmc/ref c14_wire.go follows the Polkadot specification (GRANDPA messages)")
	for _, num := range []uint32{0, 1, 1<<32 - 1} {
		for _, pat := range []byte{0x01, 0x41} {
			h := ref.C14Hash32(pat, 3)
			var sig AuthoritySignature
			copy(sig[:], ref.C14Fill(64, pat+1, 1))
			var id AuthorityID
			copy(id[:], ref.C14Fill(32, pat+2, 7))
			for kind := 0; kind < 3; kind++ {
				var m c14PMsg
				switch kind {
				case 0:
					m = finality.NewMessage(finality.Prevote[hash.H256, uint32]{TargetHash: hash.H256(h[:]), TargetNumber: num})
				case 1:
					m = finality.NewMessage(finality.Precommit[hash.H256, uint32]{TargetHash: hash.H256(h[:]), TargetNumber: num})
				case 2:
					m = finality.NewMessage(finality.PrimaryPropose[hash.H256, uint32]{TargetHash: hash.H256(h[:]), TargetNumber: num})
				}
				mb := (&ref.C14Buf{}).U8(byte(kind)).Raw(h[:]...).U32(num)
				name := fmt.Sprintf("kind=%d number=%d hash=%02x..", kind, num, pat)
				c14PCheck(r, "Message", name, mb.B, func() ([]byte, error) { return scale.Marshal(m) },
					func(in []byte) ([]byte, error) {
						var d c14PMsg
						if err := scale.Unmarshal(in, &d); err != nil {
							return nil, err
						}
						b := &ref.C14Buf{}
						return b.B, c14PRenderMsg(b, d)
					})
				sm := c14PSigned{Message: m, Signature: sig, ID: id}
				sb := mb.Clone().Raw(sig[:]...).Raw(id[:]...)
				c14PCheck(r, "SignedMessage", name, sb.B, func() ([]byte, error) { return scale.Marshal(sm) },
					func(in []byte) ([]byte, error) {
						var d c14PSigned
						if err := scale.Unmarshal(in, &d); err != nil {
							return nil, err
						}
						b := &ref.C14Buf{}
						if err := c14PRenderMsg(b, d.Message); err != nil {
							return nil, err
						}
						return b.Raw(d.Signature[:]...).Raw(d.ID[:]...).B, nil
					})
				for _, round := range []uint64{0, 1, 1<<64 - 1} {
					pb := mb.Clone().U64(round).U64(round ^ 5)
					c14PCheck(r, "LocalizedPayload", fmt.Sprintf("%s round=%d set=%d", name, round, round^5), pb.B,
						func() ([]byte, error) { return NewLocalizedPayload(RoundNumber(round), SetID(round^5), m), nil }, nil)
				}
			}
			for n := 0; n <= 2; n++ {
				c := c14PCommit{TargetHash: hash.H256(h[:]), TargetNumber: num}
				for i := 0; i < n; i++ {
					ph := ref.C14Hash32(pat+byte(i), 5)
					c.Precommits = append(c.Precommits, finality.SignedPrecommit[hash.H256, uint32, AuthoritySignature, AuthorityID]{
						Precommit: finality.Precommit[hash.H256, uint32]{TargetHash: hash.H256(ph[:]), TargetNumber: num ^ uint32(i)}, Signature: sig, ID: id})
				}
				cb := &ref.C14Buf{}
				cb.Raw(h[:]...).U32(num).Len(n, "precommits")
				for i := 0; i < n; i++ {
					ph := ref.C14Hash32(pat+byte(i), 5)
					cb.Raw(ph[:]...).U32(num ^ uint32(i)).Raw(sig[:]...).Raw(id[:]...)
				}
				name := fmt.Sprintf("number=%d hash=%02x.. precommits=%d", num, pat, n)
				c14PCheck(r, "Commit", name, cb.B, func() ([]byte, error) { return scale.Marshal(c) },
					func(in []byte) ([]byte, error) {
						var d c14PCommit
						if err := scale.Unmarshal(in, &d); err != nil {
							return nil, err
						}
						b := &ref.C14Buf{}
						c14PRenderCommit(b, d)
						return b.B, nil
					})
				for _, round := range []uint64{0, 1<<64 - 1} {
					j := c14PJust{Round: round, Commit: c, VoteAncestries: []runtime.Header[uint32, hash.H256]{}}
					jb := (&ref.C14Buf{}).U64(round).Append(cb).Len(0, "ancestry")
					c14PCheck(r, "GrandpaJustification", fmt.Sprintf("round=%d %s", round, name), jb.B, func() ([]byte, error) { return scale.Marshal(j) },
						func(in []byte) ([]byte, error) {
							var d c14PJust
							if err := scale.Unmarshal(in, &d); err != nil {
								return nil, err
							}
							b := (&ref.C14Buf{}).U64(d.Round)
							c14PRenderCommit(b, d.Commit)
							return b.Len(len(d.VoteAncestries), "ancestry").B, nil
						})
				}
			}
		}
		for n := 0; n <= 2; n++ {
			sc := ScheduledChange[uint32]{Delay: num}
			b := (&ref.C14Buf{}).Len(n, "authorities")
			for i := 0; i < n; i++ {
				var id AuthorityID
				copy(id[:], ref.C14Fill(32, byte(i+1), 9))
				w := []uint64{1, 1<<64 - 1}[i%2]
				sc.NextAuthorities = append(sc.NextAuthorities, AuthorityIDWeight{AuthorityID: id, AuthorityWeight: AuthorityWeight(w)})
				b.Raw(id[:]...).U64(w)
			}
			b.U32(num)
			c14PCheck(r, "ScheduledChange", fmt.Sprintf("authorities=%d delay=%d", n, num), b.B, func() ([]byte, error) { return scale.Marshal(sc) },
				func(in []byte) ([]byte, error) {
					var d ScheduledChange[uint32]
					if err := scale.Unmarshal(in, &d); err != nil {
						return nil, err
					}
					o := (&ref.C14Buf{}).Len(len(d.NextAuthorities), "authorities")
					for _, a := range d.NextAuthorities {
						o.Raw(a.AuthorityID[:]...).U64(uint64(a.AuthorityWeight))
					}
					return o.U32(d.Delay).B, nil
				})
		}
	}
}
