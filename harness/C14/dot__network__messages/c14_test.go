//go:build verif

package messages

// C14 (part messages): block request / response messages round-trip through their protobuf wire
// encoding and match a hand-rolled wire-level reference writer byte for byte.
//
//  encode: BlockRequestMessage.Encode / BlockResponseMessage.Encode of the value built from the
//          description == reference bytes;
//  decode: Decode(reference bytes) gives a message equal to the description.
// Not judged (counted): distinctions the wire format itself cannot carry - Max = &0 versus nil (proto3
// uint32 0 = unspecified), empty versus absent body / receipt / message queue (proto3 bytes/repeated).
// For those the decoded value must equal the wire-normal form.  Block numbers above u32 are outside
// the specification's domain (the request carries a little-endian u32).

import (
	"bytes"
	"fmt"
	"testing"

	"github.com/ChainSafe/gossamer/internal/verifmc"
	"github.com/ChainSafe/gossamer/internal/verifmc/ref"
	"github.com/ChainSafe/gossamer/lib/common"
)

func c14ReqFromMessage(m *BlockRequestMessage) (c14Req, error) {
	q := c14Req{Fields: m.RequestedData}
	switch v := m.StartingBlock.RawValue().(type) {
	case uint:
		if v > 1<<32-1 {
			return q, fmt.Errorf("from number %d above u32", v)
		}
		q.FromNum = uint32(v)
	case common.Hash:
		h := [32]byte(v)
		q.FromHash = &h
	default:
		return q, fmt.Errorf("starting block of type %T", v)
	}
	switch m.Direction {
	case Ascending:
	case Descending:
		q.Desc = true
	default:
		return q, fmt.Errorf("direction %d", m.Direction)
	}
	if m.Max != nil {
		v := *m.Max
		q.Max = &v
	}
	return q, nil
}

func c14SameReq(a, b c14Req) bool {
	if a.Fields != b.Fields || a.Desc != b.Desc || (a.FromHash == nil) != (b.FromHash == nil) || (a.Max == nil) != (b.Max == nil) {
		return false
	}
	if a.FromHash != nil && *a.FromHash != *b.FromHash {
		return false
	}
	if a.FromHash == nil && a.FromNum != b.FromNum {
		return false
	}
	return a.Max == nil || *a.Max == *b.Max
}

// c14PBEqual: equal byte for byte up to the order of the fields within a message, which the protobuf
// wire format leaves unspecified (canonical form = records sorted by field number, repeated elements
// in order; BlockResponse field 1 is a nested message).
func c14PBEqual(r *verifmc.Report, got, want []byte, nestedField1 bool) bool {
	if bytes.Equal(got, want) {
		r.Outcome("protobuf:identical-bytes")
		return true
	}
	c, err := ref.C14PBCanon(got, map[string]bool{"1": nestedField1}, "")
	if err == nil && bytes.Equal(c, want) {
		r.Outcome("protobuf:same-records-in-another-field-order")
		return true
	}
	return false
}

func c14CheckReq(r *verifmc.Report, q c14Req) {
	want := c14RefReq(q).B
	replay := map[string]any{"request": q.String(), "reference_encoding": verifmc.Hex(want)}
	r.Add("evaluations", 1)
	r.Distinct("req|" + q.String())
	enc, err := c14BuildReq(q).Encode()
	switch {
	case err != nil:
		r.Violate("BlockRequest.encode:error", fmt.Sprintf("%s: %v", q, err), replay)
	case !c14PBEqual(r, enc, want, false):
		r.Outcome("request:encode-differs")
		r.Violate("BlockRequest.encode:bytes-differ-from-reference", fmt.Sprintf("%s encodes to %x, reference %x", q, enc, want), replay)
	default:
		r.Outcome("request:encode-equal")
	}
	var m BlockRequestMessage
	if err := m.Decode(append([]byte{}, want...)); err != nil {
		r.Outcome("request:decode-rejected")
		r.Violate("BlockRequest.decode:valid-encoding-rejected", fmt.Sprintf("%s: reference encoding %x rejected: %v", q, want, err), replay)
		return
	}
	got, err := c14ReqFromMessage(&m)
	expect := q
	if q.Max != nil && *q.Max == 0 {
		expect.Max = nil // the wire cannot carry "0 but present"
		r.Outcome("request:max-0-is-unspecified-on-the-wire(not judged as a difference)")
	}
	if err != nil || !c14SameReq(got, expect) {
		r.Outcome("request:decode-differs")
		r.Violate("BlockRequest.decode:decoded-message-differs", fmt.Sprintf("%s decodes to %s (%v)", q, got, err), replay)
		return
	}
	r.Outcome("request:decode-equal")
}

func c14BlockFromData(m *BlockResponseMessage) ([]c14Block, error) {
	var out []c14Block
	for _, bd := range m.BlockData {
		if bd == nil {
			return nil, fmt.Errorf("nil block data")
		}
		b := c14Block{Hash: bd.Hash}
		if bd.Header != nil {
			h, err := c14AbstractHeader(bd.Header)
			if err != nil {
				return nil, err
			}
			b.Header = &h
		}
		if bd.Body != nil {
			x := [][]byte{}
			for _, e := range *bd.Body {
				x = append(x, []byte(e))
			}
			b.Body = &x
		}
		b.Receipt, b.MessageQueue, b.Justification = bd.Receipt, bd.MessageQueue, bd.Justification
		out = append(out, b)
	}
	return out, nil
}

func c14SameBlock(a, b c14Block) bool {
	so := func(x, y *[]byte) bool { return (x == nil) == (y == nil) && (x == nil || bytes.Equal(*x, *y)) }
	if a.Hash != b.Hash || (a.Header == nil) != (b.Header == nil) || (a.Body == nil) != (b.Body == nil) ||
		!so(a.Receipt, b.Receipt) || !so(a.MessageQueue, b.MessageQueue) || !so(a.Justification, b.Justification) {
		return false
	}
	if a.Header != nil && !ref.C14SameHeader(*a.Header, *b.Header) {
		return false
	}
	if a.Body != nil {
		if len(*a.Body) != len(*b.Body) {
			return false
		}
		for i := range *a.Body {
			if !bytes.Equal((*a.Body)[i], (*b.Body)[i]) {
				return false
			}
		}
	}
	return true
}

func c14CheckResp(r *verifmc.Report, blocks []c14Block) {
	want := c14RefResp(blocks).B
	name := fmt.Sprint(blocks)
	replay := map[string]any{"response": name, "reference_encoding": verifmc.Hex(want)}
	r.Add("evaluations", 1)
	r.Distinct("resp|" + name)
	msg := &BlockResponseMessage{}
	for _, b := range blocks {
		bd, err := c14BuildBlock(b)
		if err != nil {
			r.Violate("BlockResponse.build:error", err.Error(), replay)
			return
		}
		msg.BlockData = append(msg.BlockData, bd)
	}
	var enc []byte
	var err error
	if p, pm := verifmc.Guard(func() { enc, err = msg.Encode() }); p {
		r.Violate("BlockResponse.encode:panic:"+verifmc.PanicSite(pm), pm, replay)
	} else if err != nil {
		r.Violate("BlockResponse.encode:error", fmt.Sprintf("%s: %v", name, err), replay)
	} else if !c14PBEqual(r, enc, want, true) {
		r.Outcome("response:encode-differs")
		r.Violate("BlockResponse.encode:bytes-differ-from-reference", fmt.Sprintf("%s encodes to %x, reference %x", name, enc, want), replay)
	} else {
		r.Outcome("response:encode-equal")
	}
	var m BlockResponseMessage
	if p, pm := verifmc.Guard(func() { err = m.Decode(append([]byte{}, want...)) }); p {
		r.Violate("BlockResponse.decode:panic:"+verifmc.PanicSite(pm), pm, replay)
		return
	}
	if err != nil {
		r.Outcome("response:decode-rejected")
		r.Violate("BlockResponse.decode:valid-encoding-rejected", fmt.Sprintf("%s: reference encoding rejected: %v", name, err), replay)
		return
	}
	got, err := c14BlockFromData(&m)
	same := err == nil && len(got) == len(blocks)
	normalised := false
	for i := 0; same && i < len(blocks); i++ {
		exp, ch := c14WireNormal(blocks[i])
		normalised = normalised || ch
		same = c14SameBlock(got[i], exp)
	}
	if normalised {
		r.Outcome("response:empty-optional-part-is-absent-on-the-wire(not judged as a difference)")
	}
	if !same {
		r.Outcome("response:decode-differs")
		r.Violate("BlockResponse.decode:decoded-message-differs", fmt.Sprintf("%s decodes to %v (%v)", name, got, err), replay)
		return
	}
	r.Outcome("response:decode-equal")
}

func TestVerif_C14_messages(t *testing.T) {
	r := verifmc.NewReport("C14", "messages", "exploration")
	defer r.Write()
	r.Rule = "block requests: every requested-data mask 0..31 x from {hash, zero hash, number 0, 1, 2^32-1} x direction x max {nil, 0, 1, 128, 2^32-1}; " +
		"block responses: every single block over header {absent, 3 headers covering every digest kind} x body {absent, empty, 1, 2 extrinsics} x receipt/queue/justification {absent, empty, 3 bytes}, " +
		"every ordered pair of blocks of a reduced menu, the empty response; each value: Encode vs a hand-rolled protobuf wire writer (byte for byte up to the order of fields within a message, which the wire format leaves open), Decode of the reference bytes vs the description"
	r.Assumption("reference protobuf writer internal/verifmc/ref c14_wire.go: fields in number order, proto3 implicit presence")

	// reference self-check against the protobuf encoding guide's example: field 1 varint 150 = 08 96 01
	if verifmc.Hex((&ref.C14Buf{}).PBVarint(1, 150).B) != "089601" {
		t.Fatal("reference varint writer broken")
	}
	reqs := c14ReqMenu(true)
	for _, q := range reqs {
		c14CheckReq(r, q)
	}
	r.Sample(map[string]any{"request": reqs[777].String(), "reference_encoding": verifmc.Hex(c14RefReq(reqs[777]).B)})
	full := c14BlockMenu(true)
	c14CheckResp(r, nil)
	for _, b := range full {
		c14CheckResp(r, []c14Block{b})
	}
	red := c14BlockMenu(false)
	if !verifmc.Thorough() {
		// quick: pairs over every 3rd entry of the reduced menu (deterministic stride)
		var s []c14Block
		for i := 0; i < len(red); i += 3 {
			s = append(s, red[i])
		}
		red = s
	}
	for _, a := range red {
		for _, b := range red {
			c14CheckResp(r, []c14Block{a, b})
		}
	}
	r.Sample(map[string]any{"response": fmt.Sprint(full[200]), "reference_encoding": verifmc.Hex(c14RefResp(full[200:201]).B)})
}
