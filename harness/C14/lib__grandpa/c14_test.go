//go:build verif

package grandpa

// C14 (part grandpa): GRANDPA votes, commits, justifications and gossip messages of lib/grandpa
// encode as the specification defines and round-trip.
//  encode: ToConsensusMessage().Data / scale.Marshal == reference bytes (plain byte appends);
//  decode: decodeMessage / scale.Unmarshal of the reference bytes == the value built from the description.

import (
	"bytes"
	"fmt"
	"testing"

	"github.com/ChainSafe/gossamer/internal/verifmc"
	"github.com/ChainSafe/gossamer/internal/verifmc/ref"
	"github.com/ChainSafe/gossamer/lib/common"
	"github.com/ChainSafe/gossamer/pkg/scale"
)

func c14GCheck(r *verifmc.Report, family, name string, want []byte, val any, enc func() ([]byte, error), dec func([]byte) (any, error)) {
	r.Add("evaluations", 1)
	r.Distinct(family + "|" + name)
	replay := map[string]any{"type": family, "value": name, "reference_encoding": verifmc.Hex(want)}
	var got []byte
	var err error
	if p, pm := verifmc.Guard(func() { got, err = enc() }); p {
		r.Violate(family+".encode:panic:"+verifmc.PanicSite(pm), pm, replay)
	} else if err != nil {
		r.Outcome(family + ":encode-error")
		r.Violate(family+".encode:error", fmt.Sprintf("%s: %v", name, err), replay)
	} else if !bytes.Equal(got, want) {
		r.Outcome(family + ":encode-differs")
		r.Violate(family+".encode:bytes-differ-from-reference", fmt.Sprintf("%s encodes to %x, reference %x", name, got, want), replay)
	} else {
		r.Outcome(family + ":encode-equal")
	}
	var dv any
	if p, pm := verifmc.Guard(func() { dv, err = dec(append([]byte{}, want...)) }); p {
		r.Violate(family+".decode:panic:"+verifmc.PanicSite(pm), pm, replay)
	} else if err != nil {
		r.Outcome(family + ":decode-rejected")
		r.Violate(family+".decode:valid-encoding-rejected", fmt.Sprintf("%s: reference encoding %x rejected: %v", name, want, err), replay)
	} else if cls, det := ref.C33FirstDiff(ref.C33Dump(val), ref.C33Dump(dv)); cls != "" {
		r.Outcome(family + ":decode-differs")
		r.Violate(family+".decode:decoded-value-differs-at:"+cls, fmt.Sprintf("%s: %s", name, det), replay)
	} else {
		r.Outcome(family + ":decode-equal")
	}
}

func TestVerif_C14_grandpa(t *testing.T) {
	r := verifmc.NewReport("C14", "grandpa", "exploration")
	defer r.Write()
	r.Rule = "gossip messages (vote x 3 stages, commit with 0..2 precommits, neighbour, catch-up request, catch-up response with 0..2 x 0..2 votes) over round/set id in {0,1,2^64-1} and number in {0,1,2^32-1}; " +
		"Vote, SignedVote, Commit, Justification, FullVote over the same boundaries; each value: real encoding vs reference bytes and reference bytes decoded vs the description"
	r.Assumption("reference encoder internal/verifmc/ref c14_wire.go follows the Polkadot specification (GRANDPA messages)")

	msgs := c14GrandpaMessages()
	for _, m := range msgs {
		m := m
		family := fmt.Sprintf("%T", m.Val)
		c14GCheck(r, family, m.Name, m.Enc.B, m.Val,
			func() ([]byte, error) {
				cm, err := m.Val.ToConsensusMessage()
				if err != nil {
					return nil, err
				}
				return cm.Data, nil
			},
			func(in []byte) (any, error) { return decodeMessage(&ConsensusMessage{Data: in}) })
	}
	r.Sample(map[string]any{"message": msgs[len(msgs)/3].Name, "reference_encoding": verifmc.Hex(msgs[len(msgs)/3].Enc.B)})

	for _, num := range []uint32{0, 1, 1<<32 - 1} {
		for _, round := range []uint64{0, 1, 1<<64 - 1} {
			for n := 0; n <= 2; n++ {
				svs, w := c14GSignedList(n, num)
				h := ref.C14Hash32(0x77, 1)
				commit := Commit{Hash: common.Hash(h), Number: num, Precommits: svs}
				cb := (&ref.C14Buf{}).Raw(h[:]...).U32(num)
				w(cb, "precommits")
				c14GCheck(r, "Commit", fmt.Sprintf("Commit{number=%d precommits=%d}", num, n), cb.B, commit,
					func() ([]byte, error) { return scale.Marshal(commit) },
					func(in []byte) (any, error) { var c Commit; err := scale.Unmarshal(in, &c); return c, err })
				just := Justification{Round: round, Commit: commit}
				jb := (&ref.C14Buf{}).U64(round).Append(cb)
				c14GCheck(r, "Justification", fmt.Sprintf("Justification{round=%d number=%d precommits=%d}", round, num, n), jb.B, just,
					func() ([]byte, error) { return scale.Marshal(just) },
					func(in []byte) (any, error) { var j Justification; err := scale.Unmarshal(in, &j); return j, err })
			}
			for stage := byte(0); stage < 3; stage++ {
				sv, _ := c14GSigned(int(stage), num)
				fv := FullVote{Stage: Subround(stage), Vote: sv.Vote, Round: round, SetID: round ^ 3}
				fb := (&ref.C14Buf{}).U8(stage).Raw(sv.Vote.Hash[:]...).U32(num).U64(round).U64(round ^ 3)
				c14GCheck(r, "FullVote", fmt.Sprintf("FullVote{stage=%d number=%d round=%d}", stage, num, round), fb.B, fv,
					func() ([]byte, error) { return scale.Marshal(fv) },
					func(in []byte) (any, error) { var f FullVote; err := scale.Unmarshal(in, &f); return f, err })
			}
		}
		sv, w := c14GSigned(1, num)
		sb := &ref.C14Buf{}
		w(sb)
		c14GCheck(r, "SignedVote", fmt.Sprintf("SignedVote{number=%d}", num), sb.B, sv,
			func() ([]byte, error) { return scale.Marshal(sv) },
			func(in []byte) (any, error) { var s SignedVote; err := scale.Unmarshal(in, &s); return s, err })
		c14GCheck(r, "Vote", fmt.Sprintf("Vote{number=%d}", num), sb.B[:36], sv.Vote,
			func() ([]byte, error) { return scale.Marshal(sv.Vote) },
			func(in []byte) (any, error) { var v Vote; err := scale.Unmarshal(in, &v); return v, err })
	}
	// handshake: one byte role
	for role := 0; role < 256; role++ {
		hs := GrandpaHandshake{Role: common.NetworkRole(role)}
		c14GCheck(r, "GrandpaHandshake", fmt.Sprintf("role %d", role), []byte{byte(role)}, hs,
			func() ([]byte, error) { return hs.Encode() },
			func(in []byte) (any, error) { var h GrandpaHandshake; err := h.Decode(in); return h, err })
	}
}
