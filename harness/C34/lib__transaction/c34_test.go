//go:build verif

package transaction

// C34: the ready-transaction queue is ordered and linearizable.
// Part "seq": BFS over sequential operation histories against a sorted-list model.
// Part "conc": every interleaving (up to a preemption bound) of 2-3 threads on the real
// PriorityQueue rebuilt on the vsync shim; each complete call/return history must be
// linearizable w.r.t. the same model; the build is -race with masked hand-offs.

import (
	"fmt"
	"reflect"
	"sort"
	"strings"
	"testing"
	"time"

	"github.com/ChainSafe/gossamer/dot/types"
	"github.com/ChainSafe/gossamer/internal/verifmc"
)

// ---- sequential model: list ordered by (priority desc, insertion asc) ----

type c34Item struct {
	name string
	prio uint64
	ord  int
}
type c34Model struct {
	items []c34Item
	next  int
}

func (m *c34Model) clone() *c34Model {
	return &c34Model{items: append([]c34Item{}, m.items...), next: m.next}
}
func (m *c34Model) sorted() []c34Item {
	s := append([]c34Item{}, m.items...)
	sort.SliceStable(s, func(i, j int) bool {
		if s[i].prio != s[j].prio {
			return s[i].prio > s[j].prio
		}
		return s[i].ord < s[j].ord
	})
	return s
}
func (m *c34Model) find(name string) int {
	for i, it := range m.items {
		if it.name == name {
			return i
		}
	}
	return -1
}

type c34Op struct {
	kind string // push pop peek remove exists pending len
	name string
	prio uint64
}

func (o c34Op) Name() string {
	switch o.kind {
	case "push":
		return fmt.Sprintf("push(%s,%d)", o.name, o.prio)
	case "remove", "exists":
		return fmt.Sprintf("%s(%s)", o.kind, o.name)
	}
	return o.kind
}

func c34Ext(name string) types.Extrinsic { return types.Extrinsic([]byte("ext-" + name)) }

func c34TxName(vt *ValidTransaction) string {
	if vt == nil {
		return "nil"
	}
	return strings.TrimPrefix(string(vt.Extrinsic), "ext-")
}

// c34ApplyModel returns the result the sequential specification prescribes.
func c34ApplyModel(m *c34Model, o c34Op) string {
	switch o.kind {
	case "push":
		if m.find(o.name) >= 0 {
			return "exists"
		}
		m.items = append(m.items, c34Item{o.name, o.prio, m.next})
		m.next++
		return "ok"
	case "pop":
		s := m.sorted()
		if len(s) == 0 {
			return "nil"
		}
		m.items = append(m.items[:m.find(s[0].name)], m.items[m.find(s[0].name)+1:]...)
		return s[0].name
	case "peek":
		s := m.sorted()
		if len(s) == 0 {
			return "nil"
		}
		return s[0].name
	case "remove":
		if i := m.find(o.name); i >= 0 {
			m.items = append(m.items[:i], m.items[i+1:]...)
		}
		return "-"
	case "exists":
		return fmt.Sprint(m.find(o.name) >= 0)
	case "pending":
		var names []string
		for _, it := range m.items {
			names = append(names, it.name)
		}
		sort.Strings(names)
		return strings.Join(names, ",")
	case "len":
		return fmt.Sprint(len(m.items))
	}
	panic(o.kind)
}

// c34ApplyReal performs the operation on the real queue and renders the observable result.
func c34ApplyReal(q *PriorityQueue, o c34Op) string {
	switch o.kind {
	case "push":
		_, err := q.Push(NewValidTransaction(c34Ext(o.name), &Validity{Priority: o.prio}))
		if err == ErrTransactionExists {
			return "exists"
		} else if err != nil {
			return "err:" + err.Error()
		}
		return "ok"
	case "pop":
		return c34TxName(q.Pop())
	case "peek":
		return c34TxName(q.Peek())
	case "remove":
		q.RemoveExtrinsic(c34Ext(o.name))
		return "-"
	case "exists":
		return fmt.Sprint(q.Exists(c34Ext(o.name).Hash()))
	case "pending":
		// the statement fixes the order of yields, not of Pending(): compare as a set
		var names []string
		for _, vt := range q.Pending() {
			names = append(names, c34TxName(vt))
		}
		sort.Strings(names)
		return strings.Join(names, ",")
	case "len":
		return fmt.Sprint(q.Len())
	}
	panic(o.kind)
}

type c34State struct {
	q *PriorityQueue
	m *c34Model
}

func c34Canon(s *c34State) []byte {
	var b strings.Builder
	// scalar private fields (e.g. the insertion counter) are dumped by reflection so that the harness
	// still builds when such a field is renamed or removed
	rv := reflect.ValueOf(s.q).Elem()
	for i := 0; i < rv.NumField(); i++ {
		switch rv.Field(i).Kind() {
		case reflect.Uint64, reflect.Uint32, reflect.Uint, reflect.Int, reflect.Int64:
			if rv.Type().Field(i).Name != "pollInterval" {
				fmt.Fprintf(&b, "%s=%v ", rv.Type().Field(i).Name, rv.Field(i))
			}
		}
	}
	b.WriteString("heap=")
	for _, it := range s.q.pq {
		fmt.Fprintf(&b, "(%s p%d o%d i%d)", c34TxName(it.data), it.priority, it.order, it.index)
	}
	var hs []string
	for h, it := range s.q.txs {
		hs = append(hs, fmt.Sprintf("%x:%s", h[:4], c34TxName(it.data)))
	}
	sort.Strings(hs)
	fmt.Fprintf(&b, " txs=%v model=%v/%d", hs, s.m.items, s.m.next)
	return []byte(b.String())
}

func TestVerif_C34_seq(t *testing.T) {
	r := verifmc.NewReport("C34", "seq", "model_checking")
	defer r.Write()
	r.Rule = "BFS over sequential Push/Pop/Peek/Remove/Exists/Pending/Len histories on the real PriorityQueue (3 transactions x 2 priorities), from the empty queue and from two populated queues, against a list ordered by (priority desc, insertion asc); after every operation the queue is also drained on a replayed copy and the yield order compared (each transaction at most once); plus scripted PopWithTimer histories with a harness-owned timer channel (timeout then push: the transaction must stay queued; arrival while waiting: yielded exactly once)"
	var ops []verifmc.Op
	for _, n := range []string{"a", "b", "c"} {
		for _, p := range []uint64{1, 2} {
			ops = append(ops, c34Op{kind: "push", name: n, prio: p})
		}
	}
	ops = append(ops, c34Op{kind: "pop"}, c34Op{kind: "peek"})
	for _, n := range []string{"a", "b", "c"} {
		ops = append(ops, c34Op{kind: "remove", name: n})
	}
	// start states: the empty queue and two populated ones (so that "several equal-priority entries,
	// shrink, push again" is 3 operations away instead of 6)
	starts := [][]c34Op{nil,
		{{kind: "push", name: "a", prio: 1}, {kind: "push", name: "b", prio: 1}, {kind: "push", name: "c", prio: 1}},
		{{kind: "push", name: "a", prio: 2}, {kind: "push", name: "b", prio: 1}, {kind: "push", name: "c", prio: 1}, {kind: "pop"}}}
	for _, start := range starts {
		start := start
		h := &verifmc.Hist[*c34State]{
			Fresh: func() *c34State {
				st := &c34State{q: NewPriorityQueue(), m: &c34Model{}}
				for _, o := range start {
					if got, want := c34ApplyReal(st.q, o), c34ApplyModel(st.m, o); got != want {
						panic("start state: " + o.Name() + " returned " + got + ", model " + want)
					}
				}
				return st
			},
			Ops: func(s *c34State) []verifmc.Op { return ops },
			Apply: func(s *c34State, op verifmc.Op) string {
				o := op.(c34Op)
				got, want := c34ApplyReal(s.q, o), c34ApplyModel(s.m, o)
				if got != want {
					return fmt.Sprintf("%s: returned %s, model %s (model items %v)", o.Name(), got, want, s.m.sorted())
				}
				return ""
			},
			Check: func(s *c34State) string {
				for _, o := range []c34Op{{kind: "len"}, {kind: "pending"}, {kind: "peek"}, {kind: "exists", name: "a"}, {kind: "exists", name: "b"}, {kind: "exists", name: "c"}} {
					if got, want := c34ApplyReal(s.q, o), c34ApplyModel(s.m.clone(), o); got != want {
						return fmt.Sprintf("%s: returned %s, model %s", o.Name(), got, want)
					}
				}
				// drain (the state object is discarded afterwards): yields follow the order, each once
				m := s.m.clone()
				for i := 0; i <= len(s.m.items); i++ {
					got, want := c34ApplyReal(s.q, c34Op{kind: "pop"}), c34ApplyModel(m, c34Op{kind: "pop"})
					if got != want {
						return fmt.Sprintf("drain pop #%d: yielded %s, model %s", i, got, want)
					}
				}
				r.Outcome(fmt.Sprintf("len=%d", len(s.m.items)))
				return ""
			},
			Canon: c34Canon,
			Depth: verifmc.Pick(5, 7),
		}
		h.Explore(r)
	}
	c34PopWithTimer(r)
}

// c34PopWithTimer: the blocking pop used by block authoring.  Scripted histories around its two exits
// (timer, transaction); the timer channel is owned by the harness.  The oracle is one-sided and
// independent of timing: a transaction pushed AFTER PopWithTimer has returned nil must stay in the
// queue until somebody pops it (waiting longer can only make a violation more likely to be seen,
// never produce one on code that holds the property).
func c34PopWithTimer(r *verifmc.Report) {
	for rep := 0; rep < 3; rep++ {
		for _, pre := range []int{0, 1} { // timer already fired before the call / fires during the call
			q := NewPriorityQueue()
			q.pollInterval = time.Millisecond
			timer := make(chan time.Time, 1)
			if pre == 0 {
				timer <- time.Time{}
			} else {
				go func() { time.Sleep(3 * time.Millisecond); timer <- time.Time{} }()
			}
			r.Add("evaluations", 1)
			if vt := q.PopWithTimer(timer); vt != nil {
				r.Violate("PopWithTimer:yields-from-an-empty-queue", "PopWithTimer on an empty queue returned "+c34TxName(vt), nil)
				continue
			}
			m := &c34Model{}
			push := c34Op{kind: "push", name: "a", prio: 1}
			if got, want := c34ApplyReal(q, push), c34ApplyModel(m, push); got != want {
				r.Violate("PopWithTimer:push-after-timeout:wrong-result", "push(a) after a timed-out PopWithTimer returned "+got+", model "+want, nil)
				continue
			}
			time.Sleep(25 * time.Millisecond) // 25 poll intervals
			bad := ""
			for _, o := range []c34Op{{kind: "len"}, {kind: "exists", name: "a"}, {kind: "peek"}, {kind: "pop"}} {
				if got, want := c34ApplyReal(q, o), c34ApplyModel(m, o); got != want {
					bad += fmt.Sprintf(" %s=%s (model %s)", o.Name(), got, want)
				}
			}
			if bad != "" {
				r.Outcome("PopWithTimer:timeout-then-push:transaction-lost")
				r.Violate("PopWithTimer:transaction-pushed-after-the-timeout-leaves-the-queue-unpopped",
					"PopWithTimer timed out (returned nil); then push(a) succeeded; 25 poll intervals later:"+bad, map[string]any{"timer_fired_before_call": pre == 0})
			} else {
				r.Outcome("PopWithTimer:timeout-then-push:transaction-kept")
			}
		}
		// the other exit: a transaction arrives while PopWithTimer waits -> it is yielded, exactly once
		q := NewPriorityQueue()
		q.pollInterval = time.Millisecond
		timer := make(chan time.Time, 1)
		go func() {
			time.Sleep(3 * time.Millisecond)
			_, _ = q.Push(NewValidTransaction(c34Ext("b"), &Validity{Priority: 1}))
		}()
		r.Add("evaluations", 1)
		vt := q.PopWithTimer(timer)
		if vt == nil || c34TxName(vt) != "b" {
			r.Violate("PopWithTimer:does-not-yield-the-arriving-transaction", fmt.Sprintf("PopWithTimer returned %v while b was pushed and the timer never fired", vt), nil)
		} else if q.Len() != 0 || q.Pop() != nil {
			r.Violate("PopWithTimer:yielded-transaction-still-queued", "b was yielded by PopWithTimer and is still in the queue", nil)
		} else {
			r.Outcome("PopWithTimer:yields-arriving-transaction")
		}
		timer <- time.Time{}
	}
}

// ---- concurrent part ----

type c34Scenario struct {
	name    string
	pre     []c34Op   // applied sequentially before the threads start
	threads [][]c34Op // straight-line operation list per thread
}

func c34Scenarios() []c34Scenario {
	push := func(n string, p uint64) c34Op { return c34Op{kind: "push", name: n, prio: p} }
	pop, peek := c34Op{kind: "pop"}, c34Op{kind: "peek"}
	rm := func(n string) c34Op { return c34Op{kind: "remove", name: n} }
	ex := func(n string) c34Op { return c34Op{kind: "exists", name: n} }
	ln := c34Op{kind: "len"}
	var out []c34Scenario
	add := func(name string, pre []c34Op, th ...[]c34Op) { out = append(out, c34Scenario{name, pre, th}) }
	// 2 threads x 2 ops, forced to collide on the same transactions
	add("push-push|pop-pop", nil, []c34Op{push("a", 1), push("b", 2)}, []c34Op{pop, pop})
	add("push-dup|push-dup", nil, []c34Op{push("a", 1), push("b", 1)}, []c34Op{push("a", 2), pop})
	add("pop-pop|pop-pop from [a2,b1,c1]", []c34Op{push("a", 2), push("b", 1), push("c", 1)}, []c34Op{pop, pop}, []c34Op{pop, pop})
	add("remove-pop|push-exists", []c34Op{push("a", 1), push("b", 2)}, []c34Op{rm("a"), pop}, []c34Op{push("c", 2), ex("a")})
	add("peek-pop|remove-len", []c34Op{push("a", 2), push("b", 1)}, []c34Op{peek, pop}, []c34Op{rm("a"), ln})
	add("exists-exists|push-remove", nil, []c34Op{ex("a"), ex("a")}, []c34Op{push("a", 1), rm("a")})
	add("push-pop|exists-peek", nil, []c34Op{push("a", 1), pop}, []c34Op{ex("a"), peek})
	// 3 threads x 1 op
	add("push|pop|exists", []c34Op{push("b", 1)}, []c34Op{push("a", 2)}, []c34Op{pop}, []c34Op{ex("a")})
	add("pop|pop|pop from [a1,b1]", []c34Op{push("a", 1), push("b", 1)}, []c34Op{pop}, []c34Op{pop}, []c34Op{pop})
	add("push|push|remove", nil, []c34Op{push("a", 1)}, []c34Op{push("a", 2)}, []c34Op{rm("a")})
	add("remove|pop|peek from [a2,b1]", []c34Op{push("a", 2), push("b", 1)}, []c34Op{rm("a")}, []c34Op{pop}, []c34Op{peek})
	if verifmc.Thorough() {
		// 3 threads x 2 ops (bounded preemptions)
		add("3x2 mixed", []c34Op{push("a", 1)}, []c34Op{push("b", 2), pop}, []c34Op{pop, push("c", 1)}, []c34Op{rm("a"), ex("b")})
		add("3x2 pops", []c34Op{push("a", 2), push("b", 1), push("c", 1)}, []c34Op{pop, peek}, []c34Op{pop, ln}, []c34Op{rm("b"), pop})
	}
	return out
}

func TestVerif_C34_conc(t *testing.T) {
	r := verifmc.NewReport("C34", "conc", "model_checking")
	defer r.Write()
	bound2 := verifmc.Pick(3, -1) // preemption bound for 2-thread scenarios (-1 = unbounded)
	bound3 := verifmc.Pick(2, 3)
	r.Rule = fmt.Sprintf("controlled scheduler: every interleaving of the scheduling points (operation call/return, before every Lock, after every Unlock) of 2x2 and 3x1 (thorough: 3x2) thread scenarios on the real PriorityQueue rebuilt on the vsync shim, preemption bound %d for 2 threads and %d for 3 threads (-1 = unbounded); every complete call/return history is checked for linearizability against the sequential model by brute force; built with -race, scheduler hand-offs masked with runtime.RaceDisable so unsynchronised accesses of the queue are reported in every explored interleaving", bound2, bound3)
	r.Assumption("sequentially consistent interleavings at lock granularity; unsynchronised accesses are caught by the race detector, not interleaved")
	// determinism self-test: one schedule replayed twice gives identical histories
	scs := c34Scenarios()
	for si, sc := range scs {
		sc := sc
		setup := func() func(tid int) []verifmc.ThreadOp {
			q := NewPriorityQueue()
			for _, o := range sc.pre {
				c34ApplyReal(q, o)
			}
			return func(tid int) []verifmc.ThreadOp {
				var ops []verifmc.ThreadOp
				for _, o := range sc.threads[tid] {
					o := o
					ops = append(ops, func() string { return c34ApplyReal(q, o) })
				}
				return ops
			}
		}
		newModel := func() any {
			m := &c34Model{}
			for _, o := range sc.pre {
				c34ApplyModel(m, o)
			}
			return m
		}
		step := func(m any, th, idx int) string { return c34ApplyModel(m.(*c34Model), sc.threads[th][idx]) }
		clone := func(m any) any { return m.(*c34Model).clone() }
		bound := bound2
		if len(sc.threads) > 2 {
			bound = bound3
		}
		outcomes := map[string]bool{}
		var first *verifmc.Execution
		st := verifmc.ExploreSchedules(r, len(sc.threads), bound, setup, func(x *verifmc.Execution) {
			if first == nil {
				first = x
			}
			var res []string
			for _, h := range x.History {
				res = append(res, h.Result)
			}
			key := strings.Join(res, "|")
			outcomes[key] = true
			replay := map[string]any{"scenario": sc.name, "choices": x.Choices}
			switch {
			case x.Deadlock:
				r.Violate("conc:deadlock", "deadlock in scenario "+sc.name, replay)
			case x.Panic != "":
				r.Violate("conc:panic", "panic in scenario "+sc.name+": "+x.Panic, replay)
			case !verifmc.Linearizable(x.History, newModel, step, clone):
				r.Violate("conc:not-linearizable", fmt.Sprintf("scenario %s: history %+v has no sequential witness", sc.name, x.History), replay)
			}
		})
		if first != nil {
			again := verifmc.ReplaySchedule(len(sc.threads), setup, first.Choices)
			if fmt.Sprint(again.History) != fmt.Sprint(first.History) {
				t.Fatalf("scenario %s: replaying a recorded schedule twice gives different observations", sc.name)
			}
		}
		r.Add("states", int64(st.Executions))
		r.Add("transitions", int64(st.Transitions))
		r.Add("traces_validated_against_impl", int64(st.Executions))
		r.Add("evaluations", int64(st.Executions))
		for k := range outcomes {
			r.Outcome(fmt.Sprintf("s%d:%s", si, k))
			r.Distinct(fmt.Sprintf("s%d:%s", si, k))
		}
		r.Extra[sc.name] = map[string]any{"schedules": st.Executions, "distinct_outcomes": len(outcomes), "max_points": st.MaxPoints, "bound": bound}
		if st.Capped {
			r.Capped("deadline inside scenario " + sc.name)
		}
		if si < 3 && first != nil {
			r.Sample(map[string]any{"scenario": sc.name, "schedule": first.Choices, "history": fmt.Sprint(first.History)})
		}
	}
}
