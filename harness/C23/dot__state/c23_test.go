//go:build verif

package state

// C23: authority-set changes are applied as Substrate applies them.
//
// Every block tree with up to n nodes (node 0 = genesis; a parent vector IS a parent-first import
// order), every assignment of change announcements to its blocks, and every interleaving of the
// imports with every legal finalisation is executed on the real BlockState + GrandpaState +
// digest.BlockImportHandler (import = AddBlock + HandleDigests + ApplyForcedChanges as
// core.Service.handleBlock; finalise = SetFinalisedHash + ApplyScheduledChanges as the digest
// handler), and after every event the observable authority-set state is compared with a
// declarative reference model of Substrate's AuthoritySet that works on the explicit tree
// (DESIGN §6 C23).  Where Substrate's behaviour is not determined by the statement (listed in
// c23Model.step) the history ends there and the case is counted, never judged.

import (
	"bytes"
	"encoding/json"
	"errors"
	"fmt"
	"hash/fnv"
	"sort"
	"strings"
	"sync"
	"sync/atomic"
	"testing"
	"time"

	"github.com/ChainSafe/gossamer/dot/digest"
	"github.com/ChainSafe/gossamer/dot/types"
	"github.com/ChainSafe/gossamer/internal/database"
	"github.com/ChainSafe/gossamer/internal/verifmc"
	"github.com/ChainSafe/gossamer/lib/common"
	"github.com/ChainSafe/gossamer/lib/crypto/ed25519"
	"github.com/ChainSafe/gossamer/lib/crypto/sr25519"
	"github.com/ChainSafe/gossamer/pkg/scale"
	"github.com/ChainSafe/gossamer/pkg/trie"
	inmemory_trie "github.com/ChainSafe/gossamer/pkg/trie/inmemory"
)

type c23Telemetry struct{}

func (c23Telemetry) SendMessage(json.Marshaler) {}

// ---------------------------------------------------------------------------------------------
// alphabet of announcements
// ---------------------------------------------------------------------------------------------

type c23Ann struct {
	name        string
	sched       bool
	sd          int
	forced      bool
	fd, fm      int
	forcedFirst bool // order of the two digests when a block carries both kinds
}

var c23Alphabet = []c23Ann{
	{name: "-"},
	{name: "S0", sched: true, sd: 0},
	{name: "S1", sched: true, sd: 1},
	{name: "S2", sched: true, sd: 2},
	{name: "F0m0", forced: true, fd: 0, fm: 0},
	{name: "F0m1", forced: true, fd: 0, fm: 1},
	{name: "F1m0", forced: true, fd: 1, fm: 0},
	{name: "F1m1", forced: true, fd: 1, fm: 1},
	{name: "S0+F1m0", sched: true, sd: 0, forced: true, fd: 1, fm: 0},
	{name: "F0m1+S1", sched: true, sd: 1, forced: true, fd: 0, fm: 1, forcedFirst: true},
}

// one fixed ed25519 key per node index: the authority list announced by block i is [key i];
// the genesis list is [key 0].  The list therefore names the change that was enacted.
var (
	c23KeysOnce sync.Once
	c23Keys     [][32]byte
)

func c23Key(i int) [32]byte {
	c23KeysOnce.Do(func() {
		for k := 0; k < 16; k++ {
			kp, err := ed25519.NewKeypairFromSeed(bytes.Repeat([]byte{byte(0x23 + k)}, 32))
			if err != nil {
				panic(err)
			}
			var raw [32]byte
			copy(raw[:], kp.Public().Encode())
			c23Keys = append(c23Keys, raw)
		}
	})
	return c23Keys[i]
}

// ---------------------------------------------------------------------------------------------
// reference model (declarative, over the explicit tree)
// ---------------------------------------------------------------------------------------------

type c23Pend struct{ a, d, m int } // announced at node a with delay d (forced: median finalised m)

type c23Event struct {
	Kind byte // 'I' import, 'F' finalise
	Node int
}

func (e c23Event) String() string {
	if e.Kind == 'I' {
		return fmt.Sprintf("import(%d)", e.Node)
	}
	return fmt.Sprintf("finalise(%d)", e.Node)
}

type c23Model struct {
	parent, depth, ann []int
	imported, dead     []bool
	next               int // next node to import
	fin                int
	setID              int
	label              []int // label[k]: node whose announcement created set k (0: genesis)
	ends               []int // ends[k] (k < setID): last block number of set k
	endsAmbiguous      string
	pS, pF             []c23Pend
	stopped            string
}

func c23NewModel(parent, ann []int) *c23Model {
	n := len(parent)
	m := &c23Model{parent: parent, ann: ann, depth: make([]int, n), imported: make([]bool, n), dead: make([]bool, n), next: 1, label: []int{0}}
	for i := 1; i < n; i++ {
		m.depth[i] = m.depth[parent[i]] + 1
	}
	m.imported[0] = true
	return m
}

func (m *c23Model) clone() *c23Model {
	c := *m
	c.imported = append([]bool{}, m.imported...)
	c.dead = append([]bool{}, m.dead...)
	c.label = append([]int{}, m.label...)
	c.ends = append([]int{}, m.ends...)
	c.pS = append([]c23Pend{}, m.pS...)
	c.pF = append([]c23Pend{}, m.pF...)
	return &c
}

// a <=* b : a is b or an ancestor of b
func (m *c23Model) anc(a, b int) bool {
	for x := b; x >= 0; x = m.parent[x] {
		if x == a {
			return true
		}
	}
	return false
}

func (m *c23Model) eff(p c23Pend) int { return m.depth[p.a] + p.d }

// live: imported, on the finalised chain or above the finalised head, not abandoned
func (m *c23Model) live(b int) bool { return m.imported[b] && !m.dead[b] }

// above: live and equal to / descendant of the finalised head
func (m *c23Model) above(b int) bool { return m.live(b) && m.anc(m.fin, b) }

// isRoot: pending scheduled change with no pending scheduled change announced on a proper ancestor
func (m *c23Model) isRoot(c c23Pend) bool {
	for _, o := range m.pS {
		if o.a != c.a && m.anc(o.a, c.a) {
			return false
		}
	}
	return true
}

// importable: the parent is the finalised head or a live descendant of it
func (m *c23Model) importable(i int) bool { return m.above(m.parent[i]) }

// skipUnimportable advances over nodes that can never be imported (their fork was abandoned, or it
// would branch off below the finalised head): neither Substrate nor gossamer accepts such a block.
func (m *c23Model) skipUnimportable() (skipped int) {
	for m.next < len(m.parent) && !m.importable(m.next) {
		m.next++
		skipped++
	}
	return
}

// jumpsOver: the environment assumption of DESIGN §6 C23 - finalising F would pass the effective
// block of a pending scheduled change on F's chain that has not been finalised itself.
func (m *c23Model) jumpsOver(f int) bool {
	for _, c := range m.pS {
		if m.anc(c.a, f) && m.eff(c) > m.depth[m.fin] && m.eff(c) < m.depth[f] {
			return true
		}
	}
	return false
}

func (m *c23Model) events() (evs []c23Event, notGenerated int) {
	if m.stopped != "" {
		return nil, 0
	}
	if m.next < len(m.parent) {
		evs = append(evs, c23Event{'I', m.next})
	}
	for f := 1; f < len(m.parent); f++ {
		if f != m.fin && m.above(f) {
			if m.jumpsOver(f) {
				notGenerated++
				continue
			}
			evs = append(evs, c23Event{'F', f})
		}
	}
	return
}

type c23Expect struct {
	digestErr bool   // HandleDigests must fail (second forced change on a fork)
	forcedErr bool   // ApplyForcedChanges must fail (pending scheduled change the forced one depends on)
	refused   bool   // Substrate refuses the finalisation (UnfinalizedAncestor): nothing changes
	skipNext  bool   // do not judge NextGrandpaAuthorityChange after this event
	class     string // outcome class of the event
	enactedS  *c23Pend
	enactedF  *c23Pend
	droppedS  []c23Pend // scheduled changes discarded by this finalisation
}

func (m *c23Model) enact(p c23Pend, lastBlockOfOldSet int, what string) {
	if len(m.ends) > 0 && lastBlockOfOldSet <= m.ends[len(m.ends)-1] && m.endsAmbiguous == "" {
		// Substrate appends (set id, last block) to a list it later binary-searches; a non-increasing
		// entry makes the lookup undefined.
		m.endsAmbiguous = what + "-hand-over-not-after-the-previous-one"
	}
	m.ends = append(m.ends, lastBlockOfOldSet)
	m.setID++
	m.label = append(m.label, p.a)
}

func (m *c23Model) step(ev c23Event) c23Expect {
	var x c23Expect
	switch ev.Kind {
	case 'I':
		i := ev.Node
		m.next = i + 1
		a := c23Alphabet[m.ann[i]]
		savedS, savedF := append([]c23Pend{}, m.pS...), append([]c23Pend{}, m.pF...)
		switch {
		case a.forced: // (iv) a block announcing both kinds keeps only the forced one
			for _, f := range m.pF {
				if m.anc(f.a, i) { // (iii) at most one pending forced change per fork
					x.digestErr = true
					x.class = "import:forced-rejected(second-on-fork)"
					m.stopped = "import rejected: second forced change on a fork (Substrate does not import the block; gossamer keeps it in the block tree)"
					return x
				}
			}
			m.pF = append(m.pF, c23Pend{i, a.fd, a.fm})
			x.class = "import:announces-forced"
			if a.sched {
				x.class = "import:announces-both"
			}
		case a.sched:
			m.pS = append(m.pS, c23Pend{i, a.sd, 0})
			x.class = "import:announces-scheduled"
		default:
			x.class = "import:plain"
		}
		for _, f := range m.pF {
			if m.anc(f.a, i) && m.depth[i] == m.eff(f) {
				for _, c := range m.pS {
					if m.isRoot(c) && c.a != f.a && m.anc(c.a, f.a) && m.eff(c) <= f.m {
						x.forcedErr = true
						x.class += "+forced-blocked-by-scheduled"
						m.pS, m.pF = savedS, savedF
						m.stopped = "import fails: forced change depends on a pending scheduled change (Substrate does not import the block; gossamer keeps it in the block tree)"
						return x
					}
				}
				f := f
				x.enactedF = &f
				m.enact(f, f.m, "forced")
				m.pS, m.pF = nil, nil
				x.class += "+forced-enacted"
				break
			}
		}
		m.imported[i] = true
	case 'F':
		f := ev.Node
		// pending scheduled changes on F's chain, in announcement order
		var onChain []c23Pend
		for _, c := range m.pS {
			if m.anc(c.a, f) {
				onChain = append(onChain, c)
			}
		}
		sort.Slice(onChain, func(i, j int) bool { return m.depth[onChain[i].a] < m.depth[onChain[j].a] })
		x.class = "finalise:nothing-due"
		if len(onChain) > 0 && m.eff(onChain[0]) <= m.depth[f] {
			if len(onChain) > 1 {
				// Substrate: ForkTree::finalize_with_descendent_if returns UnfinalizedAncestor when the
				// applicable root has a child announced at or below F on F's chain: the finalisation
				// is refused and the authority set stays as it is.
				x.refused = true
				x.skipNext = true
				x.class = "finalise:substrate-refuses(overlapping-scheduled-changes)"
				m.stopped = "Substrate refuses the finalisation (UnfinalizedAncestor): the environments differ from here on"
				m.fin = f
				return x
			}
			c := onChain[0]
			x.enactedS = &c
			if m.eff(c) != m.depth[f] && m.endsAmbiguous == "" {
				m.endsAmbiguous = "scheduled-change-enacted-above-its-effective-number"
			}
			m.enact(c, m.depth[f], "scheduled")
			x.class = fmt.Sprintf("finalise:scheduled-enacted(delay%d)", c.d)
			var rest []c23Pend
			for _, o := range m.pS {
				if o.a != c.a {
					rest = append(rest, o)
				}
			}
			m.pS = rest
		} else if len(onChain) > 0 {
			x.class = "finalise:scheduled-not-yet-effective"
		}
		// (ii) discards
		var keepS []c23Pend
		for _, c := range m.pS {
			if m.anc(c.a, f) || m.anc(f, c.a) {
				keepS = append(keepS, c)
			} else {
				x.droppedS = append(x.droppedS, c)
			}
		}
		m.pS = keepS
		var keepF []c23Pend
		for _, c := range m.pF {
			switch {
			case m.anc(c.a, f):
				// announced on the finalised chain and not yet effective: Substrate drops it only if the
				// same finalisation changed the scheduled-change tree, the DESIGN reference always,
				// gossamer only below F.  Not judged.
				x.skipNext = true
				m.stopped = "forced change announced at or below the finalised block is still pending: Substrate's handling depends on unrelated pending changes"
				x.class += "+pending-forced-on-finalised-chain"
			case m.anc(f, c.a):
				keepF = append(keepF, c)
			}
		}
		m.pF = keepF
		m.fin = f
		for b := 1; b < len(m.parent); b++ {
			if !m.anc(b, f) && !m.anc(f, b) {
				m.dead[b] = true
			}
		}
	}
	return x
}

func (m *c23Model) bestNumber() int {
	best := 0
	for b := range m.parent {
		if m.live(b) && m.depth[b] > best {
			best = m.depth[b]
		}
	}
	return best
}

func (m *c23Model) setIDAt(n int) int {
	for k, e := range m.ends {
		if n <= e {
			return k
		}
	}
	return m.setID
}

// nextChange: block number of the earliest pending change on the chain ending in b whose effective
// block is on that chain; ok=false: none.  ambiguous: the answer depends on whether only the first
// pending scheduled change of the chain counts (Substrate's roots) or all of them.
func (m *c23Model) nextChange(b int) (num int, ok bool, ambiguous bool, which string) {
	minOf := func(rootsOnly bool) (int, bool, string) {
		best, has, which := 0, false, ""
		take := func(c c23Pend, kind string) {
			if e := m.eff(c); e <= m.depth[b] && (!has || e < best) {
				best, has = e, true
				which = kind
				if c.a != m.fin && m.anc(c.a, m.fin) {
					which += "-change-announced-below-the-finalised-head"
				} else {
					which += "-change"
				}
			}
		}
		for _, c := range m.pS {
			if m.anc(c.a, b) && (!rootsOnly || m.isRoot(c)) {
				take(c, "scheduled")
			}
		}
		for _, c := range m.pF {
			if m.anc(c.a, b) {
				take(c, "forced")
			}
		}
		return best, has, which
	}
	n1, ok1, w := minOf(true)
	n2, ok2, _ := minOf(false)
	if ok1 != ok2 || n1 != n2 {
		return 0, false, true, ""
	}
	return n1, ok1, false, w
}

// ---------------------------------------------------------------------------------------------
// the real services
// ---------------------------------------------------------------------------------------------

// c23MemDB is a map-backed database.Database (pebble's in-memory instance costs ~20 ms per
// history); the determinism self-test also runs on pebble and must give the same observations.
type c23MemDB struct {
	mu sync.Mutex
	m  map[string][]byte
}

func c23NewMemDB() *c23MemDB { return &c23MemDB{m: map[string][]byte{}} }

func (d *c23MemDB) Get(k []byte) ([]byte, error) {
	d.mu.Lock()
	defer d.mu.Unlock()
	v, ok := d.m[string(k)]
	if !ok {
		return nil, database.ErrNotFound
	}
	return append([]byte{}, v...), nil
}
func (d *c23MemDB) Has(k []byte) (bool, error) {
	d.mu.Lock()
	defer d.mu.Unlock()
	_, ok := d.m[string(k)]
	return ok, nil
}
func (d *c23MemDB) Put(k, v []byte) error {
	d.mu.Lock()
	defer d.mu.Unlock()
	d.m[string(k)] = append([]byte{}, v...)
	return nil
}
func (d *c23MemDB) Del(k []byte) error {
	d.mu.Lock()
	defer d.mu.Unlock()
	delete(d.m, string(k))
	return nil
}
func (d *c23MemDB) Flush() error             { return nil }
func (d *c23MemDB) Close() error             { return nil }
func (d *c23MemDB) Path() string             { return "" }
func (d *c23MemDB) NewBatch() database.Batch { return &c23MemBatch{d: d} }
func (d *c23MemDB) NewIterator() (database.Iterator, error) {
	return d.NewPrefixIterator(nil)
}
func (d *c23MemDB) NewPrefixIterator(prefix []byte) (database.Iterator, error) {
	d.mu.Lock()
	defer d.mu.Unlock()
	it := &c23MemIter{pos: -1}
	for k := range d.m {
		if strings.HasPrefix(k, string(prefix)) {
			it.keys = append(it.keys, k)
		}
	}
	sort.Strings(it.keys)
	for _, k := range it.keys {
		it.vals = append(it.vals, append([]byte{}, d.m[k]...))
	}
	return it, nil
}

type c23MemOp struct {
	k   string
	v   []byte
	del bool
}
type c23MemBatch struct {
	d   *c23MemDB
	ops []c23MemOp
	sz  int
}

func (b *c23MemBatch) Put(k, v []byte) error {
	b.ops = append(b.ops, c23MemOp{k: string(k), v: append([]byte{}, v...)})
	b.sz += len(v)
	return nil
}
func (b *c23MemBatch) Del(k []byte) error {
	b.ops = append(b.ops, c23MemOp{k: string(k), del: true})
	return nil
}
func (b *c23MemBatch) Flush() error {
	b.d.mu.Lock()
	defer b.d.mu.Unlock()
	for _, o := range b.ops {
		if o.del {
			delete(b.d.m, o.k)
		} else {
			b.d.m[o.k] = o.v
		}
	}
	b.ops, b.sz = nil, 0
	return nil
}
func (b *c23MemBatch) ValueSize() int { return b.sz }
func (b *c23MemBatch) Reset()         { b.ops, b.sz = nil, 0 }
func (b *c23MemBatch) Close() error   { return nil }

type c23MemIter struct {
	keys []string
	vals [][]byte
	pos  int
}

func (i *c23MemIter) Valid() bool { return i.pos >= 0 && i.pos < len(i.keys) }
func (i *c23MemIter) Next() bool  { i.pos++; return i.Valid() }
func (i *c23MemIter) First() bool { i.pos = 0; return i.Valid() }
func (i *c23MemIter) Key() []byte {
	if !i.Valid() {
		return nil
	}
	return []byte(i.keys[i.pos])
}
func (i *c23MemIter) Value() []byte {
	if !i.Valid() {
		return nil
	}
	return i.vals[i.pos]
}
func (i *c23MemIter) SeekGE(k []byte) bool {
	i.pos = sort.SearchStrings(i.keys, string(k))
	return i.Valid()
}
func (i *c23MemIter) Release()     {}
func (i *c23MemIter) Close() error { return nil }

type c23Env struct {
	db      database.Database
	bs      *BlockState
	gs      *GrandpaState
	handler *digest.BlockImportHandler
	headers []*types.Header
	parent  []int
	ann     []int
	clock   time.Time
	// set after the (soft) forced-change hand-over divergence was reported once: the real object
	// and the model no longer agree on block-number lookups, everything else is still compared
	noSetIDByNumber bool
	notes           map[string]bool
}

func (e *c23Env) note(s string) {
	if e.notes == nil {
		e.notes = map[string]bool{}
	}
	e.notes[s] = true
}

func c23NewEnv(parent, ann []int, pebble bool) (*c23Env, error) {
	var db database.Database = c23NewMemDB()
	var err error
	if pebble {
		if db, err = database.LoadDatabase("", true); err != nil {
			return nil, err
		}
	}
	e := &c23Env{db: db, headers: make([]*types.Header, len(parent)), parent: parent, ann: ann, clock: time.Unix(1_700_000_000, 0)}
	tries := NewTries()
	tries.SetTrie(inmemory_trie.NewEmptyTrie())
	e.headers[0] = types.NewHeader(common.Hash{}, trie.EmptyHash, trie.EmptyHash, 0, types.NewDigest())
	if e.bs, err = NewBlockStateFromGenesis(db, tries, e.headers[0], c23Telemetry{}); err != nil {
		return nil, err
	}
	k := c23Key(0)
	pk, err := ed25519.NewPublicKey(k[:])
	if err != nil {
		return nil, err
	}
	if e.gs, err = NewGrandpaStateFromGenesis(db, e.bs, []types.GrandpaVoter{{Key: *pk, ID: 0}}, c23Telemetry{}); err != nil {
		return nil, err
	}
	// the BABE side of the handler is never reached: the blocks carry GRANDPA consensus digests only
	e.handler = digest.NewBlockImportHandler(nil, e.gs)
	return e, nil
}

func (e *c23Env) close() { _ = e.db.Close() }

func c23GrandpaDigest(v any) (types.ConsensusDigest, error) {
	gd := types.NewGrandpaConsensusDigest()
	if err := gd.SetValue(v); err != nil {
		return types.ConsensusDigest{}, err
	}
	data, err := scale.Marshal(gd)
	if err != nil {
		return types.ConsensusDigest{}, err
	}
	return types.ConsensusDigest{ConsensusEngineID: types.GrandpaEngineID, Data: data}, nil
}

func (e *c23Env) header(i int, depth int) (*types.Header, error) {
	dg := types.NewDigest()
	pre, err := types.NewBabePrimaryPreDigest(0, uint64(100+depth), [sr25519.VRFOutputLength]byte{byte(i)}, [sr25519.VRFProofLength]byte{}).ToPreRuntimeDigest()
	if err != nil {
		return nil, err
	}
	if err := dg.Add(*pre); err != nil {
		return nil, err
	}
	a := c23Alphabet[e.ann[i]]
	auths := []types.GrandpaAuthoritiesRaw{{Key: c23Key(i), ID: 0}}
	var items []any
	if a.sched {
		items = append(items, types.GrandpaScheduledChange{Auths: auths, Delay: uint32(a.sd)})
	}
	if a.forced {
		fc := types.GrandpaForcedChange{BestFinalizedBlock: uint32(a.fm), Auths: auths, Delay: uint32(a.fd)}
		if a.forcedFirst {
			items = append([]any{fc}, items...)
		} else {
			items = append(items, fc)
		}
	}
	for _, it := range items {
		cd, err := c23GrandpaDigest(it)
		if err != nil {
			return nil, err
		}
		if err := dg.Add(cd); err != nil {
			return nil, err
		}
	}
	return types.NewHeader(e.headers[e.parent[i]].Hash(), trie.EmptyHash, trie.EmptyHash, uint(depth), dg), nil
}

type c23Result struct {
	addErr, digestErr, forcedErr, finErr, schedErr error
}

// importBlock does what core.Service.handleBlock does with the state services.
func (e *c23Env) importBlock(i, depth int) (res c23Result) {
	h, err := e.header(i, depth)
	if err != nil {
		res.addErr = fmt.Errorf("harness: building header: %w", err)
		return
	}
	e.headers[i] = h
	e.clock = e.clock.Add(time.Second)
	e.bs.lock.Lock()
	err = e.bs.AddBlockWithArrivalTime(&types.Block{Header: *h, Body: types.Body{types.Extrinsic{byte(i)}}}, e.clock)
	e.bs.lock.Unlock()
	if err != nil {
		res.addErr = err
		return
	}
	if res.digestErr = e.handler.HandleDigests(h); res.digestErr != nil {
		return
	}
	res.forcedErr = e.gs.ApplyForcedChanges(h)
	return
}

// finalise does what the GRANDPA voter and the digest handler do on finalisation.
func (e *c23Env) finalise(i int, round uint64) (res c23Result) {
	setID, err := e.gs.GetCurrentSetID()
	if err != nil {
		res.finErr = err
		return
	}
	if res.finErr = e.bs.SetFinalisedHash(e.headers[i].Hash(), round, setID); res.finErr != nil {
		return
	}
	res.schedErr = e.gs.ApplyScheduledChanges(e.headers[i])
	return
}

// ---------------------------------------------------------------------------------------------
// comparison
// ---------------------------------------------------------------------------------------------

type c23Mismatch struct{ sig, desc string }

func c23ErrClass(err error) string {
	s := err.Error()
	switch {
	case errors.Is(err, errUnfinalizedAncestor):
		return "unfinalized-ancestor"
	case errors.Is(err, errPendingScheduledChanges):
		return "pending-scheduled-changes"
	case errors.Is(err, errAlreadyHasForcedChange):
		return "already-has-forced-change"
	case errors.Is(err, errDuplicateHashes):
		return "duplicate-hashes"
	case errors.Is(err, ErrNoNextAuthorityChange):
		return "no-next-change"
	case errors.Is(err, database.ErrNotFound):
		if strings.Contains(s, "getting header") {
			return "header-of-pruned-block-not-found"
		}
		return "db-not-found"
	case strings.Contains(s, "getting header"):
		return "header-lookup-fails"
	}
	return "other"
}

// observe compares every observable of the statement with the model; first mismatch wins.
func (e *c23Env) observe(m *c23Model, x c23Expect, ev c23Event) *c23Mismatch {
	kind := "import"
	if ev.Kind == 'F' {
		kind = "finalise"
	}
	cur, err := e.gs.GetCurrentSetID()
	if err != nil {
		return &c23Mismatch{"GetCurrentSetID:error", err.Error()}
	}
	if int(cur) != m.setID {
		shape := "wrong-set-id"
		switch {
		case int(cur) == m.setID-1 && x.enactedS != nil:
			shape = fmt.Sprintf("scheduled-change-not-enacted(delay%d)", x.enactedS.d)
		case int(cur) == m.setID-1 && x.enactedF != nil:
			shape = "forced-change-not-enacted"
		case int(cur) == m.setID+1 && ev.Kind == 'F' && x.refused:
			shape = "change-enacted-where-substrate-refuses-the-finalisation(earlier-change-of-the-chain-still-pending)"
		case int(cur) == m.setID+1 && ev.Kind == 'F':
			shape = "change-enacted-that-substrate-does-not-enact"
		case int(cur) == m.setID+1 && ev.Kind == 'I':
			shape = "forced-change-enacted-that-substrate-does-not-enact"
		}
		return &c23Mismatch{kind + ":" + shape, fmt.Sprintf("current set id is %d, Substrate's rules give %d", cur, m.setID)}
	}
	for k := 0; k <= m.setID; k++ {
		auths, err := e.gs.GetAuthorities(uint64(k))
		if err != nil {
			return &c23Mismatch{"GetAuthorities:error", fmt.Sprintf("GetAuthorities(%d): %v", k, err)}
		}
		want := c23Key(m.label[k])
		if len(auths) != 1 || !bytes.Equal(auths[0].Key.Encode(), want[:]) {
			who := "?"
			if len(auths) == 1 {
				for n := 0; n < len(m.parent); n++ {
					kk := c23Key(n)
					if bytes.Equal(auths[0].Key.Encode(), kk[:]) {
						who = fmt.Sprint(n)
					}
				}
			}
			return &c23Mismatch{kind + ":wrong-authorities", fmt.Sprintf("GetAuthorities(%d) is the list announced by block %s (%d entries), expected the list announced by block %d", k, who, len(auths), m.label[k])}
		}
	}
	if m.endsAmbiguous == "" && !e.noSetIDByNumber {
		for n := 0; n <= m.bestNumber(); n++ {
			got, err := e.gs.GetSetIDByBlockNumber(uint(n))
			if err != nil {
				return &c23Mismatch{"GetSetIDByBlockNumber:error", fmt.Sprintf("GetSetIDByBlockNumber(%d): %v", n, err)}
			}
			if want := m.setIDAt(n); int(got) != want {
				shape := "wrong-set-id"
				// the shape of the mismatch: which kind of change produced the hand-over that is misplaced
				forcedHandOver := false
				for k := 1; k <= m.setID; k++ {
					if c23Alphabet[m.ann[m.label[k]]].forced {
						forcedHandOver = true
					}
				}
				if forcedHandOver && int(got) < want {
					shape = "block-after-the-median-finalised-of-a-forced-change-still-in-the-old-set"
				} else if forcedHandOver {
					shape = "wrong-set-id-after-forced-change"
				}
				return &c23Mismatch{"GetSetIDByBlockNumber:" + shape, fmt.Sprintf("GetSetIDByBlockNumber(%d) = %d, Substrate's rules give %d (last blocks of the sets: %v, current set %d)", n, got, want, m.ends, m.setID)}
			}
		}
	}
	if !x.skipNext {
		for b := range m.parent {
			if !m.above(b) {
				continue
			}
			want, ok, amb, which := m.nextChange(b)
			if amb {
				e.note("NextGrandpaAuthorityChange not judged: first pending scheduled change of the chain vs all of them differ")
				continue
			}
			got, err := e.gs.NextGrandpaAuthorityChange(e.headers[b].Hash(), uint(m.depth[b]))
			switch {
			case err != nil && !errors.Is(err, ErrNoNextAuthorityChange):
				return &c23Mismatch{"NextGrandpaAuthorityChange:error(" + c23ErrClass(err) + ")", fmt.Sprintf("NextGrandpaAuthorityChange(block %d) fails: %v", b, err)}
			case err != nil && ok:
				return &c23Mismatch{"NextGrandpaAuthorityChange:pending-change-not-reported(" + which + ")", fmt.Sprintf("NextGrandpaAuthorityChange(block %d) reports no change, a change is pending at #%d", b, want)}
			case err == nil && !ok:
				return &c23Mismatch{"NextGrandpaAuthorityChange:reports-a-change-that-is-not-pending", fmt.Sprintf("NextGrandpaAuthorityChange(block %d) = #%d, no change is pending on that chain", b, got)}
			case err == nil && int(got) != want:
				return &c23Mismatch{"NextGrandpaAuthorityChange:wrong-number", fmt.Sprintf("NextGrandpaAuthorityChange(block %d) = #%d, expected #%d", b, got, want)}
			}
		}
	}
	return nil
}

// ---------------------------------------------------------------------------------------------
// running one history on the real services
// ---------------------------------------------------------------------------------------------

type c23Scenario struct {
	parent, ann []int
}

func (s c23Scenario) annNames() []string {
	out := make([]string, len(s.ann))
	for i, a := range s.ann {
		out[i] = c23Alphabet[a].name
	}
	return out
}

type c23Finding struct {
	sig, desc string
	sc        c23Scenario
	hist      []c23Event
}

func (f *c23Finding) less(o *c23Finding) bool {
	if len(f.sc.parent) != len(o.sc.parent) {
		return len(f.sc.parent) < len(o.sc.parent)
	}
	if len(f.hist) != len(o.hist) {
		return len(f.hist) < len(o.hist)
	}
	nz := func(a []int) (n int) {
		for _, v := range a {
			if v != 0 {
				n++
			}
		}
		return
	}
	if nz(f.sc.ann) != nz(o.sc.ann) {
		return nz(f.sc.ann) < nz(o.sc.ann)
	}
	return fmt.Sprint(f.sc.parent, f.sc.ann, f.hist) < fmt.Sprint(o.sc.parent, o.sc.ann, o.hist)
}

func (f *c23Finding) replay() map[string]any {
	ev := make([]string, len(f.hist))
	for i, e := range f.hist {
		ev[i] = e.String()
	}
	return map[string]any{"parents": f.sc.parent, "announcements": f.sc.annNames(), "events": ev}
}

// c23Run executes one history; outcome(class) is called per event; returns the first divergence.
const c23SoftSig = "GetSetIDByBlockNumber:block-after-the-median-finalised-of-a-forced-change-still-in-the-old-set"

func c23Run(sc c23Scenario, hist []c23Event, pebble bool, outcome func(string)) (found []*c23Finding, err error) {
	e, err := c23NewEnv(sc.parent, sc.ann, pebble)
	if err != nil {
		return nil, err
	}
	defer e.close()
	m := c23NewModel(sc.parent, sc.ann)
	defer func() {
		if outcome == nil {
			return
		}
		if m.endsAmbiguous != "" {
			outcome("not-judged GetSetIDByBlockNumber: " + m.endsAmbiguous)
		}
		for k := range e.notes {
			outcome("not-judged " + k)
		}
	}()
	round := uint64(0)
	for step, ev := range hist {
		fail := func(sig, desc string) *c23Finding {
			return &c23Finding{sig: sig, desc: desc, sc: sc, hist: append([]c23Event{}, hist[:step+1]...)}
		}
		x := m.step(ev)
		var res c23Result
		if ev.Kind == 'I' {
			res = e.importBlock(ev.Node, m.depth[ev.Node])
			if res.addErr != nil {
				return found, fmt.Errorf("AddBlock(%d) in %v %v %v: %w", ev.Node, sc.parent, sc.annNames(), hist[:step+1], res.addErr)
			}
			switch {
			case x.digestErr && res.digestErr == nil:
				return append(found, fail("import:second-forced-change-on-a-fork-accepted", "HandleDigests accepts a forced change although another one is pending on an ancestor")), nil
			case !x.digestErr && res.digestErr != nil:
				return append(found, fail("import:announcement-rejected("+c23ErrClass(res.digestErr)+")", "HandleDigests fails: "+res.digestErr.Error())), nil
			case x.forcedErr && res.digestErr == nil && res.forcedErr == nil:
				return append(found, fail("import:forced-change-enacted-despite-pending-scheduled-dependency", "ApplyForcedChanges succeeds although a scheduled change with effective number <= median finalised is pending on an ancestor")), nil
			case !x.forcedErr && res.forcedErr != nil:
				return append(found, fail("import:ApplyForcedChanges-fails("+c23ErrClass(res.forcedErr)+")", "ApplyForcedChanges fails: "+res.forcedErr.Error())), nil
			}
			if outcome != nil {
				outcome(x.class)
			}
		} else {
			round++
			res = e.finalise(ev.Node, round)
			if res.finErr != nil {
				return found, fmt.Errorf("SetFinalisedHash(%d) in %v %v %v: %w", ev.Node, sc.parent, sc.annNames(), hist[:step+1], res.finErr)
			}
			if outcome != nil {
				if res.schedErr != nil {
					outcome(x.class + " ApplyScheduledChanges-error=" + c23ErrClass(res.schedErr))
				} else {
					outcome(x.class)
				}
			}
		}
		mm := e.observe(m, x, ev)
		if mm != nil && mm.sig == c23SoftSig {
			// soft: a recognised divergence that does not touch the pending-change state; report it
			// and keep exploring this history without the block-number lookups
			found = append(found, fail(mm.sig, fmt.Sprintf("tree %v announcements %v after %v: %s", sc.parent, sc.annNames(), hist[:step+1], mm.desc)))
			e.noSetIDByNumber = true
			mm = e.observe(m, x, ev)
		}
		if mm != nil {
			desc := fmt.Sprintf("tree %v announcements %v after %v: %s", sc.parent, sc.annNames(), hist[:step+1], mm.desc)
			if res.schedErr != nil {
				desc += " [ApplyScheduledChanges returned: " + res.schedErr.Error() + "]"
				if strings.HasPrefix(mm.sig, "finalise:") {
					mm.sig += "+ApplyScheduledChanges-error(" + c23ErrClass(res.schedErr) + ")"
				}
			}
			return append(found, fail(mm.sig, desc)), nil
		}
		if m.stopped != "" {
			break
		}
	}
	return found, nil
}

// ---------------------------------------------------------------------------------------------
// enumeration
// ---------------------------------------------------------------------------------------------

// c23Histories enumerates (depth first, on clones of the model) every maximal history of a scenario.
func c23Histories(sc c23Scenario, visit func(hist []c23Event), stats *c23Stats) {
	var rec func(m *c23Model, hist []c23Event)
	rec = func(m *c23Model, hist []c23Event) {
		atomic.AddInt64(&stats.states, 1)
		atomic.AddInt64(&stats.unimportable, int64(m.skipUnimportable()))
		evs, ng := m.events()
		atomic.AddInt64(&stats.notGenerated, int64(ng))
		if len(evs) == 0 {
			if m.stopped != "" {
				atomic.AddInt64(&stats.stopped, 1)
			}
			visit(hist)
			return
		}
		for _, ev := range evs {
			c := m.clone()
			c.step(ev)
			atomic.AddInt64(&stats.transitions, 1)
			rec(c, append(append([]c23Event{}, hist...), ev))
		}
	}
	rec(c23NewModel(sc.parent, sc.ann), nil)
}

type c23Stats struct {
	states, transitions, notGenerated, unimportable, stopped, histories, executed int64
}

func c23Scenarios(maxN, maxAnnouncing int) []c23Scenario {
	var out []c23Scenario
	for n := 2; n <= maxN; n++ {
		verifmc.ParentVectors(n, func(parent []int) {
			pv := append([]int{}, parent...)
			dims := make([]int, n-1)
			for i := range dims {
				dims[i] = len(c23Alphabet)
			}
			verifmc.Product(dims, func(idx []int) {
				cnt := 0
				for _, v := range idx {
					if v != 0 {
						cnt++
					}
				}
				if cnt > maxAnnouncing {
					return
				}
				out = append(out, c23Scenario{parent: pv, ann: append([]int{0}, idx...)})
			})
		})
	}
	return out
}

func TestVerif_C23(t *testing.T) {
	r := verifmc.NewReport("C23", "authority-set-histories", "model_checking")
	defer r.Write()
	maxN := verifmc.Pick(4, 5)
	maxAnn := verifmc.Pick(3, 3)
	names := make([]string, len(c23Alphabet))
	for i, a := range c23Alphabet {
		names[i] = a.name
	}
	r.Rule = fmt.Sprintf("every parent vector with up to %d nodes (node 0 = genesis; the vector is the import order) x every assignment of announcements %v (S<delay> scheduled, F<delay>m<median finalised> forced, both kinds in one block in both digest orders) to its blocks with at most %d announcing blocks per tree x every interleaving of the imports with every legal finalisation (any live proper descendant of the finalised head, at any point), executed on the real BlockState+GrandpaState+digest.BlockImportHandler; after every event GetCurrentSetID, GetAuthorities(id<=current), GetSetIDByBlockNumber(n<=best) and NextGrandpaAuthorityChange(every live block at or above the finalised head) are compared with a declarative model of Substrate's AuthoritySet over the explicit tree; a history is non-trivial when it enacts or discards at least one change", maxN, names, maxAnn)
	r.Assumption("environment (DESIGN §6 C23): a finalisation never jumps over the effective block of a pending scheduled change on its chain without finalising that block first; such histories are not generated (counted in not_generated_jump_over)")
	r.Assumption("histories end (counted, not judged further) where Substrate does not import the block (second forced change on a fork; forced change depending on a pending scheduled change), where Substrate refuses the finalisation (overlapping scheduled changes on one chain: UnfinalizedAncestor; only 'nothing changes' is checked), and where a forced change announced at or below the finalised block is still pending")
	r.Assumption("GetSetIDByBlockNumber is not judged once Substrate's own (set id, last block) list stops being increasing (forced change whose median finalised number is not above the previous hand-over); blocks that can never be imported (abandoned fork / below the finalised head) are skipped")

	r.Assumption("the key-value store under the services is a map-backed database.Database (pebble's not-found error, copies on read and write); the self-test history and every reported witness are also executed on pebble's in-memory instance")
	r.Assumption("NextGrandpaAuthorityChange(b) is read as: the smallest effective number of a pending change announced on the chain ending in b whose effective block is on that chain (<= number(b)); not judged where Substrate's fork-tree roots and the full pending set give different answers, after a refused finalisation, and while a forced change announced at or below the finalised block is pending")

	// determinism self-test: one history twice
	{
		sc := c23Scenario{parent: []int{-1, 0, 1}, ann: []int{0, 2, 0}}
		h := []c23Event{{'I', 1}, {'I', 2}, {'F', 1}, {'F', 2}}
		var o1, o2 []string
		f1, err1 := c23Run(sc, h, false, func(s string) { o1 = append(o1, s) })
		f2, err2 := c23Run(sc, h, true, func(s string) { o2 = append(o2, s) }) // same history on pebble
		if err1 != nil || err2 != nil {
			t.Fatalf("self-test: %v %v", err1, err2)
		}
		if fmt.Sprint(o1, len(f1)) != fmt.Sprint(o2, len(f2)) {
			t.Fatalf("determinism self-test failed (map store vs pebble): %v vs %v", o1, o2)
		}
		if len(f1) == 0 {
			want := "[import:announces-scheduled import:plain finalise:scheduled-not-yet-effective finalise:scheduled-enacted(delay1)]"
			if fmt.Sprint(o1) != want {
				t.Fatalf("self-test: model classes %v, expected %s", o1, want)
			}
		}
	}

	scenarios := c23Scenarios(maxN, maxAnn)
	var stats c23Stats
	var mu sync.Mutex
	best := map[string]*c23Finding{}
	counts := map[string]int{}
	var infra []string
	verifmc.ParallelFor(r, len(scenarios), func(si int) {
		sc := scenarios[si]
		c23Histories(sc, func(hist []c23Event) {
			atomic.AddInt64(&stats.histories, 1)
			if r.Expired() {
				r.Capped("deadline inside a scenario")
				return
			}
			nontrivial := false
			fs, err := c23Run(sc, hist, false, func(class string) {
				r.Outcome(class)
				if strings.Contains(class, "enacted") || strings.Contains(class, "rejected") || strings.Contains(class, "blocked") || strings.Contains(class, "refuses") {
					nontrivial = true
				}
			})
			atomic.AddInt64(&stats.executed, 1)
			if err != nil {
				mu.Lock()
				if len(infra) < 5 {
					infra = append(infra, err.Error())
				}
				mu.Unlock()
				return
			}
			if nontrivial {
				h := fnv.New64a()
				fmt.Fprint(h, sc.parent, sc.ann, hist)
				r.Distinct(fmt.Sprintf("%016x", h.Sum64()))
			}
			for _, f := range fs {
				mu.Lock()
				counts[f.sig]++
				if cur, ok := best[f.sig]; !ok || f.less(cur) {
					best[f.sig] = f
				}
				mu.Unlock()
			}
		}, &stats)
		if si%997 == 5 {
			r.Sample(map[string]any{"parents": sc.parent, "announcements": sc.annNames()})
		}
	}, func(i int, msg string) {
		r.Violate("panic@"+verifmc.PanicSite(msg), msg, map[string]any{"parents": scenarios[i].parent, "announcements": scenarios[i].annNames()})
	})
	if len(infra) > 0 {
		t.Fatalf("harness invariant broken (block import/finalisation of the environment failed): %v", infra)
	}
	sigs := make([]string, 0, len(best))
	for s := range best {
		sigs = append(sigs, s)
	}
	sort.Strings(sigs)
	vc := map[string]int{}
	for _, s := range sigs {
		f := best[s]
		// re-execute the minimal witness (on pebble): it must reproduce with the same signature
		for k := 0; k < 3; k++ {
			gs, err := c23Run(f.sc, f.hist, true, nil)
			ok := false
			for _, g := range gs {
				ok = ok || g.sig == f.sig
			}
			if err != nil || !ok {
				t.Fatalf("FLAKY: witness of %s does not reproduce (%v, %v)", s, gs, err)
			}
		}
		vc[s] = counts[s]
		r.Violate(s, fmt.Sprintf("%s (minimal of %d histories with this signature)", f.desc, counts[s]), f.replay())
	}
	r.Extra["histories_per_signature"] = vc
	r.Extra["not_generated_jump_over"] = stats.notGenerated
	r.Extra["blocks_never_importable"] = stats.unimportable
	r.Extra["histories_ended_by_a_not_judged_case"] = stats.stopped
	r.Extra["scenarios"] = len(scenarios)
	r.Add("states", stats.states)
	r.Add("transitions", stats.transitions)
	r.Add("traces_validated_against_impl", stats.executed)
	r.Add("evaluations", stats.transitions)
}
