//go:build verif

package inmemory

// C04: persisted state reads back identically.
// BFS over histories of main/child mutations interleaved with persist (WriteDirty into a
// map-backed database, then Snapshot, as successive block states do).  After every persist,
// for EVERY root persisted so far: a fresh trie loaded by root hash must have the same root,
// entries and child tries, and GetFromDB must return the model's value for every key
// (nil for absent keys).

import (
	"bytes"
	"fmt"
	"sort"
	"strings"
	"testing"

	"github.com/ChainSafe/gossamer/internal/database"
	"github.com/ChainSafe/gossamer/internal/verifmc"
	"github.com/ChainSafe/gossamer/internal/verifmc/ref"
	"github.com/ChainSafe/gossamer/lib/common"
	"github.com/ChainSafe/gossamer/pkg/trie"
)

// ---- map-backed database (batches applied atomically on Flush) ----

type c04DB struct{ m map[string][]byte }

func (d *c04DB) Get(k []byte) ([]byte, error) {
	v, ok := d.m[string(k)]
	if !ok {
		return nil, database.ErrNotFound
	}
	return append([]byte{}, v...), nil
}
func (d *c04DB) NewBatch() database.Batch { return &c04Batch{d: d} }

type c04Batch struct {
	d   *c04DB
	ops [][2][]byte
}

func (b *c04Batch) Put(k, v []byte) error {
	b.ops = append(b.ops, [2][]byte{append([]byte{}, k...), append([]byte{}, v...)})
	return nil
}
func (b *c04Batch) Del(k []byte) error {
	b.ops = append(b.ops, [2][]byte{append([]byte{}, k...), nil})
	return nil
}
func (b *c04Batch) Flush() error {
	for _, o := range b.ops {
		if o[1] == nil {
			delete(b.d.m, string(o[0]))
		} else {
			b.d.m[string(o[0])] = o[1]
		}
	}
	b.ops = nil
	return nil
}
func (b *c04Batch) Close() error   { return nil }
func (b *c04Batch) ValueSize() int { return len(b.ops) }
func (b *c04Batch) Reset()         { b.ops = nil }

// ---- model ----

type c04Model struct {
	main     ref.OMap
	children map[string]ref.OMap
}

func (m *c04Model) clone() *c04Model {
	c := &c04Model{main: m.main.Clone(), children: map[string]ref.OMap{}}
	for k, v := range m.children {
		c.children[k] = v.Clone()
	}
	return c
}

// full: the main map as the trie must hold it (child roots under :child_storage:default:<name>)
func (m *c04Model) full(ver int) ref.OMap {
	f := m.main.Clone()
	for name, ch := range m.children {
		if len(ch) > 0 {
			f[string(ChildStorageKeyPrefix)+name] = ref.TrieRoot(ch, ver)
		}
	}
	return f
}
func (m *c04Model) canon() string {
	var names []string
	for n := range m.children {
		names = append(names, n)
	}
	sort.Strings(names)
	s := string(m.main.Canon())
	for _, n := range names {
		s += "|" + n + ":" + string(m.children[n].Canon())
	}
	return s
}

type c04Persisted struct {
	root common.Hash
	m    *c04Model
}

type c04State struct {
	t    *InMemoryTrie
	db   *c04DB
	m    *c04Model
	ver  trie.TrieLayout
	done []c04Persisted
	np   int
	// aliasHit: a child trie was modified while another child trie had exactly the same contents
	// (the two then share one in-memory trie object, keyed by root hash) - shape of a known finding
	aliasHit bool
}

func (s *c04State) noteAlias(c []byte) {
	mine := s.m.children[string(c)]
	if len(mine) == 0 {
		return
	}
	for name, ch := range s.m.children {
		if name != string(c) && len(ch) > 0 && string(ch.Canon()) == string(mine.Canon()) {
			s.aliasHit = true
		}
	}
}

type c04Op struct {
	kind    string // put delete putChild clearChild persist
	c, k, v []byte
}

func (o c04Op) Name() string {
	switch o.kind {
	case "put":
		return fmt.Sprintf("put(%x,%s)", o.k, vValName(o.v))
	case "delete":
		return fmt.Sprintf("delete(%x)", o.k)
	case "putChild":
		return fmt.Sprintf("putChild(%s,%x,%s)", o.c, o.k, vValName(o.v))
	case "clearChild":
		return fmt.Sprintf("clearChild(%s,%x)", o.c, o.k)
	}
	return o.kind
}

var c04Keys = [][]byte{{0x01}, {0x01, 0x00}, {0x15, 0x00}, {0x15, 0x23}}
var c04Probes = [][]byte{{0x02}, {0x01, 0x01}, {0x00}, {0x23}, {0x15}, {}}
var c04ChildKeys = [][]byte{{0x01}, {0x02}}

func c04CheckLoaded(s *c04State, p c04Persisted) string {
	ver := vVersionInt(s.ver)
	want := p.m.full(ver)
	fresh := NewEmptyTrie()
	fresh.SetVersion(s.ver)
	if err := fresh.Load(s.db, p.root); err != nil {
		return fmt.Sprintf("Load: reloading root %x fails: %v (state %s)", p.root[:4], err, vMapString(want))
	}
	h, err := fresh.Hash()
	if err != nil || h != p.root {
		return fmt.Sprintf("Load: reloaded trie has root %x, persisted root %x (err %v)", h[:4], p.root[:4], err)
	}
	if d := vCheckContents(fresh, want); d != "" {
		return "Load: reloaded " + d
	}
	for name, ch := range p.m.children {
		for _, k := range c04ChildKeys {
			got, err := fresh.GetFromChild([]byte(name), k)
			w, ok := ch[string(k)]
			if len(ch) == 0 {
				if err == nil && got != nil {
					return fmt.Sprintf("Load: child %s does not exist in the model but GetFromChild(%x) = %x", name, k, got)
				}
				continue
			}
			if err != nil {
				return fmt.Sprintf("Load: child trie %s not readable after reload: %v", name, err)
			}
			if (ok && !bytes.Equal(got, w)) || (!ok && got != nil) || (ok && got == nil) {
				return fmt.Sprintf("Load: child %s key %x reloaded as %x, model %x (present %t)", name, k, got, w, ok)
			}
		}
	}
	// single-key reads straight from the database
	var keys [][]byte
	keys = append(keys, c04Keys...)
	keys = append(keys, c04Probes...)
	for _, k := range keys {
		got, err := GetFromDB(s.db, p.root, k)
		if err != nil {
			return fmt.Sprintf("GetFromDB(%x): error %v", k, err)
		}
		w, ok := want[string(k)]
		switch {
		case !ok && got != nil:
			shape := "absent key read as"
			for k2, v2 := range want {
				if k2 != string(k) && bytes.HasPrefix(vNibbles([]byte(k2)), vNibbles(k)) && bytes.Equal(v2, got) {
					shape = "absent key that prefixes a present key read as that key's value"
				}
			}
			return fmt.Sprintf("GetFromDB(%x): %s %s; state %s", k, shape, vValName(got), vMapString(want))
		case ok && (got == nil || !bytes.Equal(got, w)):
			hashed := ""
			if bytes.Equal(got, ref.Blake256(w)) {
				hashed = " (that is the BLAKE2b-256 hash of the value)"
			}
			return fmt.Sprintf("GetFromDB(%x): read %s, state holds %s%s", k, vValName(got), vValName(w), hashed)
		}
	}
	return ""
}

func c04Explore(r *verifmc.Report, ver trie.TrieLayout, depth int, longKeys bool) {
	vals := [][]byte{{0x01}, vVal(0x32, 32), vVal(0x33, 33)}
	names := [][]byte{[]byte("c1"), []byte("c2")}
	if longKeys {
		// keys with a LONG extension of a key that is present (01 | 01 ab*20 | 01 ab*20 01): partial keys
		// of 40+ nibbles cut out of one nibble slice, so a write past the end of one partial key lands in
		// another one
		ext := append([]byte{0x01}, bytes.Repeat([]byte{0xab}, 20)...)
		saveK, saveP := c04Keys, c04Probes
		c04Keys = [][]byte{{0x01}, ext, append(append([]byte{}, ext...), 0x01), {0x15}}
		c04Probes = [][]byte{{0x02}, ext[:10], {}}
		defer func() { c04Keys, c04Probes = saveK, saveP }()
		vals = [][]byte{{0x01}, vVal(0x33, 33)}
		names = nil
	}
	h := &verifmc.Hist[*c04State]{
		Fresh: func() *c04State {
			tr := NewEmptyTrie()
			tr.SetVersion(ver)
			return &c04State{t: tr, db: &c04DB{m: map[string][]byte{}}, m: &c04Model{main: ref.OMap{}, children: map[string]ref.OMap{}}, ver: ver}
		},
		Ops: func(s *c04State) []verifmc.Op {
			var ops []verifmc.Op
			for _, k := range c04Keys {
				for _, v := range vals {
					ops = append(ops, c04Op{kind: "put", k: k, v: v})
				}
				if _, ok := s.m.main[string(k)]; ok {
					ops = append(ops, c04Op{kind: "delete", k: k})
				}
			}
			for _, c := range names {
				for _, k := range c04ChildKeys {
					ops = append(ops, c04Op{kind: "putChild", c: c, k: k, v: []byte{0x01}}, c04Op{kind: "putChild", c: c, k: k, v: vVal(0x33, 33)})
					if _, ok := s.m.children[string(c)][string(k)]; ok {
						ops = append(ops, c04Op{kind: "clearChild", c: c, k: k})
					}
				}
			}
			if s.np < 3 {
				ops = append(ops, c04Op{kind: "persist"})
			}
			return ops
		},
		Apply: func(s *c04State, op verifmc.Op) string {
			o := op.(c04Op)
			switch o.kind {
			case "put":
				if err := s.t.Put(o.k, o.v); err != nil {
					return "Put: " + err.Error()
				}
				s.m.main[string(o.k)] = o.v
			case "delete":
				if err := s.t.Delete(o.k); err != nil {
					return "Delete: " + err.Error()
				}
				delete(s.m.main, string(o.k))
			case "putChild":
				s.noteAlias(o.c)
				if err := s.t.PutIntoChild(o.c, o.k, o.v); err != nil {
					return "PutIntoChild: " + err.Error()
				}
				if s.m.children[string(o.c)] == nil {
					s.m.children[string(o.c)] = ref.OMap{}
				}
				s.m.children[string(o.c)][string(o.k)] = o.v
			case "clearChild":
				s.noteAlias(o.c)
				if err := s.t.ClearFromChild(o.c, o.k); err != nil {
					return "ClearFromChild: " + err.Error()
				}
				delete(s.m.children[string(o.c)], string(o.k))
			case "persist":
				if err := s.t.WriteDirty(s.db); err != nil {
					return "WriteDirty: " + err.Error()
				}
				root, err := s.t.Hash()
				if err != nil {
					return "Hash: " + err.Error()
				}
				s.done = append(s.done, c04Persisted{root, s.m.clone()})
				s.np++
				s.t = s.t.Snapshot()
			}
			return ""
		},
		Check: func(s *c04State) string {
			// in-memory state first (different signature: not a persistence problem)
			want := s.m.full(vVersionInt(s.ver))
			if d := vCheckContents(s.t, want); d != "" {
				return "InMemory: " + d
			}
			for name, ch := range s.m.children {
				for _, k := range c04ChildKeys {
					if len(ch) == 0 {
						continue
					}
					var got []byte
					var err error
					panicked, msg := verifmc.Guard(func() { got, err = s.t.GetFromChild([]byte(name), k) })
					w, ok := ch[string(k)]
					if panicked || err != nil || (ok && !bytes.Equal(got, w)) || (!ok && got != nil) {
						shape := "InMemoryChild"
						if s.aliasHit {
							shape = "InMemoryChildAliased"
						}
						if panicked {
							msg = strings.SplitN(msg, "\n", 2)[0]
						}
						return fmt.Sprintf("%s: child %s key %x reads %x err %v %s, model %x (present %t)", shape, name, k, got, err, msg, w, ok)
					}
				}
			}
			if d := vCheckRoot(s.t, want, s.ver); d != "" {
				return "InMemory: " + d
			}
			for _, p := range s.done {
				if d := c04CheckLoaded(s, p); d != "" {
					return d
				}
			}
			r.Outcome(fmt.Sprintf("persisted=%d children=%d", len(s.done), len(s.m.children)))
			return ""
		},
		Canon: func(s *c04State) []byte {
			var b bytes.Buffer
			b.Write(vDumpTrie(s.t))
			var names []string
			for _, ct := range s.t.childTries {
				names = append(names, string(vDumpTrie(ct)))
			}
			sort.Strings(names)
			b.WriteString(strings.Join(names, ";"))
			var ks []string
			for k, v := range s.db.m {
				ks = append(ks, fmt.Sprintf("%x=%x", k, v))
			}
			sort.Strings(ks)
			fmt.Fprintf(&b, " db=%d:%x alias=%t", len(ks), ref.Blake256([]byte(strings.Join(ks, ","))), s.aliasHit)
			b.WriteString(s.m.canon())
			for _, p := range s.done {
				fmt.Fprintf(&b, " P%x:%s", p.root[:4], p.m.canon())
			}
			return b.Bytes()
		},
		Sig: func(hist []verifmc.Op, desc string) string {
			if strings.HasPrefix(desc, "panic:") {
				return "panic@" + verifmc.PanicSite(desc)
			}
			cls := desc
			if i := strings.Index(desc, ":"); i > 0 {
				cls = desc[:i]
			}
			detail := ""
			switch {
			case strings.Contains(desc, "that is the BLAKE2b-256 hash of the value"):
				detail = ":returns-hash-of-hashed-value"
			case strings.Contains(desc, "absent key that prefixes a present key"):
				detail = ":absent-key-returns-value-of-a-key-it-prefixes"
			case strings.Contains(desc, "absent key read as"):
				detail = ":absent-key-read-as-present"
			case strings.Contains(desc, "child trie") && strings.Contains(desc, "not readable"):
				detail = ":child-trie-not-persisted"
			case strings.Contains(desc, "reloading root") && strings.Contains(desc, "fails"):
				detail = ":reload-fails"
			}
			if i := strings.Index(cls, "("); i > 0 {
				cls = cls[:i]
			}
			return cls + detail
		},
		Depth: depth,
	}
	h.Explore(r)
}

func TestVerif_C04(t *testing.T) {
	r := verifmc.NewReport("C04", "persist-reload", "model_checking")
	defer r.Write()
	depth := verifmc.Pick(4, 6)
	r.Rule = fmt.Sprintf("BFS (depth %d, V0 and V1) over put/delete on 4 main keys (01, 0100, 1500, 1523) with 1/32/33-byte values, putChild/clearChild on 2 child tries, and up to 3 persists (WriteDirty into a map-backed database then Snapshot); after every operation every persisted root is reloaded into a fresh trie (root, entries, child tries compared with the model) and read key by key with GetFromDB (4 keys + 6 absent probes incl. 23, which diverges inside the partial key of the branch of 1500/1523); the same without child tries on keys with a 20-byte extension of a present key (01, 01 ab*20, 01 ab*20 01, 15) and 1/33-byte values", depth)
	for _, ver := range []trie.TrieLayout{trie.V0, trie.V1} {
		c04Explore(r, ver, depth, false)
	}
	dLong := verifmc.Pick(4, 5)
	for _, ver := range []trie.TrieLayout{trie.V0, trie.V1} {
		c04Explore(r, ver, dLong, true)
	}
	r.Extra["depth_long_extension_keys"] = dLong
}
