//go:build verif

package network

// C33 (part network): block announce message and handshake, transaction message and handshake,
// consensus message, light request and light response decoders against arbitrary peer bytes.
// Driver and oracle: internal/verifmc/ref c33_driver.go.
//
// Layouts of the catalogue entries (SCALE, fields in declaration order):
//   BlockAnnounceMessage   = header fields ++ best_block bool
//   BlockAnnounceHandshake = roles u8 ++ best_number u32 ++ best_hash[32] ++ genesis_hash[32]
//   TransactionMessage     = Vec<bytes>
//   LightRequest           = call{block bytes, method str, data bytes} ++ read{block, Vec<bytes>} ++ header{block}
//                            ++ readChild{block, storage_key, Vec<bytes>} ++ changes{Option<hash>, Option<hash>, min, max, Option<bytes>}
//   LightResponse          = call{proof} ++ read{proof} ++ header{Vec<Option<Header>>} ++ changes{max, Vec<bytes>, Vec<Vec<(bytes,bytes)>>, roots_proof}

import (
	"fmt"
	"testing"

	"github.com/ChainSafe/gossamer/internal/verifmc"
	"github.com/ChainSafe/gossamer/internal/verifmc/ref"
)

func c33Str(m any) {
	if s, ok := m.(fmt.Stringer); ok {
		_ = s.String()
	}
}

func c33LightRequest(level int) *ref.C14Buf {
	b := &ref.C14Buf{}
	bs := func(n int, what string) { b.Bytes(ref.C14Tame((n+3)*level, 0), what) } // empty or >= 4 bytes, see ref.C14Tame
	vec := func(n int, what string) {
		b.Len(n*level, what+"-count")
		for i := 0; i < n*level; i++ {
			b.Bytes(ref.C14Tame(i+4, 0), what)
		}
	}
	opt := func(some bool, f func()) {
		if some && level > 0 {
			b.U8(1)
			f()
		} else {
			b.U8(0)
		}
	}
	bs(3, "call-block")
	bs(2, "call-method")
	bs(1, "call-data")
	bs(3, "read-block")
	vec(1, "read-keys")
	bs(3, "header-block")
	bs(3, "child-block")
	bs(2, "child-storage-key")
	vec(1, "child-keys")
	opt(true, func() { b.Raw(ref.C14Tame(32, 1)...) })
	opt(level > 1, func() { b.Raw(ref.C14Tame(32, 2)...) })
	bs(1, "changes-min")
	bs(1, "changes-max")
	opt(true, func() { bs(2, "changes-storage-key") })
	return b
}

func c33LightResponse(level int) *ref.C14Buf {
	b := &ref.C14Buf{}
	bs := func(n int, what string) { b.Bytes(ref.C14Tame((n+3)*level, 0), what) } // empty or >= 4 bytes, see ref.C14Tame
	bs(3, "call-proof")
	bs(2, "read-proof")
	hs := ref.C14SmallHeaders()
	b.Len(level, "header-count")
	for i := 0; i < level; i++ {
		if i == 1 {
			b.U8(0) // None
			continue
		}
		b.U8(1).Append(ref.C14RefHeader(hs[1+i%3]))
	}
	bs(1, "changes-max")
	b.Len(level, "changes-proof-count")
	for i := 0; i < level; i++ {
		b.Bytes(ref.C14Tame(i+4, 0), "changes-proof")
	}
	b.Len(level, "roots-count")
	for i := 0; i < level; i++ {
		b.Len(i+1, "roots-inner-count")
		for k := 0; k <= i; k++ {
			b.Bytes(ref.C14Tame(k+4, 0), "pair-first").Bytes(ref.C14Tame(5, 0), "pair-second")
		}
	}
	bs(2, "roots-proof")
	return b
}

func c33NetworkDecoders() []ref.C33Decoder {
	var annCat, hsCat, txCat, lreqCat, lrespCat []ref.C33Valid
	for i, h := range ref.C14SmallHeaders() {
		annCat = append(annCat, ref.C33Valid{Name: fmt.Sprintf("announce %s best=%t", h, i%2 == 0), Enc: ref.C14RefHeader(h).Bool(i%2 == 0)})
	}
	hsCat = append(hsCat, ref.C33Valid{Name: "handshake", Enc: (&ref.C14Buf{}).U8(1).U32(77).Raw(ref.C14Tame(32, 1)...).Raw(ref.C14Tame(32, 2)...)})
	for _, exts := range [][][]byte{{}, {ref.C14Tame(4, 1)}, {nil, ref.C14Tame(64, 2)}, {ref.C14Tame(5, 0), ref.C14Tame(7, 3), ref.C14Tame(4, 0)}} {
		txCat = append(txCat, ref.C33Valid{Name: fmt.Sprintf("%d transactions", len(exts)), Enc: ref.C14RefBody(exts)})
	}
	for level := 0; level <= 2; level++ {
		lreqCat = append(lreqCat, ref.C33Valid{Name: fmt.Sprintf("light request level %d", level), Enc: c33LightRequest(level)})
		lrespCat = append(lrespCat, ref.C33Valid{Name: fmt.Sprintf("light response level %d", level), Enc: c33LightResponse(level)})
	}
	enc := func(m any) ([]byte, error) { return m.(interface{ Encode() ([]byte, error) }).Encode() }
	return []ref.C33Decoder{
		{Name: "decodeBlockAnnounceMessage", Catalogue: annCat, Observe: c33Str, Encode: enc,
			Decode: func(in []byte) (any, error) {
				m, err := decodeBlockAnnounceMessage(in)
				if err != nil {
					return nil, err
				}
				return m, nil
			}},
		{Name: "BlockAnnounceMessage.Decode", Catalogue: annCat[:1], Observe: c33Str, Encode: enc,
			Decode: func(in []byte) (any, error) { m := &BlockAnnounceMessage{}; err := m.Decode(in); return m, err }},
		{Name: "decodeBlockAnnounceHandshake", Catalogue: hsCat, Observe: c33Str, Encode: enc,
			Decode: func(in []byte) (any, error) {
				m, err := decodeBlockAnnounceHandshake(in)
				if err != nil {
					return nil, err
				}
				return m, nil
			}},
		{Name: "BlockAnnounceHandshake.Decode", Catalogue: hsCat, Observe: c33Str, Encode: enc,
			Decode: func(in []byte) (any, error) { m := &BlockAnnounceHandshake{}; err := m.Decode(in); return m, err }},
		{Name: "decodeTransactionMessage", Catalogue: txCat, Observe: c33Str, Encode: enc,
			Decode: func(in []byte) (any, error) { return decodeTransactionMessage(in) }},
		{Name: "decodeTransactionHandshake", Catalogue: []ref.C33Valid{{Name: "empty", Enc: &ref.C14Buf{}}}, Observe: c33Str, Encode: enc,
			Decode: func(in []byte) (any, error) { return decodeTransactionHandshake(in) }},
		{Name: "ConsensusMessage.Decode", Catalogue: []ref.C33Valid{{Name: "opaque", Enc: (&ref.C14Buf{}).Raw(1, 2, 3, 4)}}, Observe: c33Str, Encode: enc,
			Decode: func(in []byte) (any, error) { m := &ConsensusMessage{}; err := m.Decode(in); return m, err }},
		{Name: "newLightRequestFromBytes", Catalogue: lreqCat, Observe: c33Str, Encode: enc,
			Decode: func(in []byte) (any, error) { return newLightRequestFromBytes(in) }},
		{Name: "newLightResponseFromBytes", Catalogue: lrespCat, Observe: c33Str, Encode: enc,
			Decode: func(in []byte) (any, error) { return newLightResponseFromBytes(in) }},
	}
}

func TestVerif_C33_network(t *testing.T) {
	r := verifmc.NewReport("C33", "network", "exploration")
	defer r.Write()
	cfg := ref.C33Config{MaxLen: verifmc.Pick(2, 3), CraftedScale: verifmc.Pick([]uint64{1 << 14, 1 << 20}, []uint64{1 << 14, 1 << 22, 1 << 30}), AllocAll: verifmc.Thorough()}
	r.Rule = ref.C33Rule(cfg)
	for _, a := range ref.C33Assumptions() {
		r.Assumption(a)
	}
	if bad := ref.C33Run(r, c33NetworkDecoders(), cfg); len(bad) > 0 {
		t.Fatalf("harness invariant: catalogue entries rejected by their decoder: %v", bad)
	}
}
