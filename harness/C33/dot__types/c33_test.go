//go:build verif

package types_test

// C33 (part types): NewBodyFromBytes and the other dot/types decoders that are fed with bytes taken
// from peers' blocks (header, BABE pre-digest, BABE / GRANDPA consensus digests, GRANDPA voters).
// Driver and oracle: internal/verifmc/ref c33_driver.go.

import (
	"fmt"
	"reflect"
	"testing"

	"github.com/ChainSafe/gossamer/dot/types"
	"github.com/ChainSafe/gossamer/internal/verifmc"
	"github.com/ChainSafe/gossamer/internal/verifmc/ref"
	"github.com/ChainSafe/gossamer/pkg/scale"
)

func c33TypesDecoders() []ref.C33Decoder {
	var bodyCat, headCat, babeCat, bcCat, gcCat, votersCat []ref.C33Valid
	for _, exts := range [][][]byte{{}, {ref.C14Tame(4, 1)}, {nil, ref.C14Tame(64, 2)}, {ref.C14Tame(5, 0), ref.C14Tame(7, 3), ref.C14Tame(4, 0)}} {
		bodyCat = append(bodyCat, ref.C33Valid{Name: fmt.Sprintf("body of %d extrinsics", len(exts)), Enc: ref.C14RefBody(exts)})
	}
	for _, h := range ref.C14SmallHeaders() {
		headCat = append(headCat, ref.C33Valid{Name: h.String(), Enc: ref.C14RefHeader(h)})
	}
	vo, vp := ref.C14Tame(32, 4), ref.C14Tame(64, 5)
	babeCat = append(babeCat,
		ref.C33Valid{Name: "primary", Enc: (&ref.C14Buf{}).U8(1).U32(2).U64(77).Raw(vo...).Raw(vp...)},
		ref.C33Valid{Name: "secondary plain", Enc: (&ref.C14Buf{}).U8(2).U32(2).U64(77)},
		ref.C33Valid{Name: "secondary vrf", Enc: (&ref.C14Buf{}).U8(3).U32(2).U64(77).Raw(vo...).Raw(vp...)})
	auths := func(b *ref.C14Buf, n int) *ref.C14Buf {
		b.Len(n, "authority-count")
		for i := 0; i < n; i++ {
			b.Raw(ref.C14Tame(32, byte(i+1))...).U64(1)
		}
		return b
	}
	for n := 0; n <= 2; n++ {
		bcCat = append(bcCat, ref.C33Valid{Name: fmt.Sprintf("NextEpochData %d", n), Enc: auths((&ref.C14Buf{}).U8(1), n).Raw(ref.C14Tame(32, 9)...)})
		gcCat = append(gcCat, ref.C33Valid{Name: fmt.Sprintf("ScheduledChange %d", n), Enc: auths((&ref.C14Buf{}).U8(1), n).U32(3)})
		gcCat = append(gcCat, ref.C33Valid{Name: fmt.Sprintf("ForcedChange %d", n), Enc: auths((&ref.C14Buf{}).U8(2).U32(8), n).U32(3)})
		votersCat = append(votersCat, ref.C33Valid{Name: fmt.Sprintf("%d voters", n), Enc: auths(&ref.C14Buf{}, n)})
	}
	bcCat = append(bcCat, ref.C33Valid{Name: "OnDisabled", Enc: (&ref.C14Buf{}).U8(2).U32(5)},
		ref.C33Valid{Name: "NextConfigData V1", Enc: (&ref.C14Buf{}).U8(3).U8(1).U64(1).U64(4).U8(2)})
	gcCat = append(gcCat, ref.C33Valid{Name: "OnDisabled", Enc: (&ref.C14Buf{}).U8(3).U64(5)},
		ref.C33Valid{Name: "Pause", Enc: (&ref.C14Buf{}).U8(4).U32(5)}, ref.C33Valid{Name: "Resume", Enc: (&ref.C14Buf{}).U8(5).U32(5)})

	vdt := func(name string, cat []ref.C33Valid, fresh func() any) ref.C33Decoder {
		return ref.C33Decoder{Name: name, Catalogue: cat,
			Decode: func(in []byte) (any, error) { d := fresh(); err := scale.Unmarshal(in, d); return d, err },
			Encode: func(m any) ([]byte, error) { return scale.Marshal(reflect.ValueOf(m).Elem().Interface()) }}
	}
	return []ref.C33Decoder{
		{Name: "NewBodyFromBytes", Catalogue: bodyCat,
			Decode: func(in []byte) (any, error) { return types.NewBodyFromBytes(in) },
			Encode: func(m any) ([]byte, error) { return scale.Marshal(*m.(*types.Body)) }},
		{Name: "Header(scale.Unmarshal)", Catalogue: headCat,
			Decode: func(in []byte) (any, error) {
				h := types.NewEmptyHeader()
				err := scale.Unmarshal(in, h)
				return h, err
			},
			Encode:  func(m any) ([]byte, error) { return scale.Marshal(*m.(*types.Header)) },
			Observe: func(m any) { _ = m.(*types.Header).String() }},
		{Name: "DecodeBabePreDigest", Catalogue: babeCat,
			Decode: func(in []byte) (any, error) { return types.DecodeBabePreDigest(in) },
			Encode: func(m any) ([]byte, error) {
				d := types.NewBabeDigest()
				if err := d.SetValue(m); err != nil {
					return nil, err
				}
				return scale.Marshal(d)
			}},
		vdt("BabeConsensusDigest(scale.Unmarshal)", bcCat, func() any { d := types.NewBabeConsensusDigest(); return &d }),
		vdt("GrandpaConsensusDigest(scale.Unmarshal)", gcCat, func() any { d := types.NewGrandpaConsensusDigest(); return &d }),
		{Name: "DecodeGrandpaVoters", Catalogue: votersCat,
			Decode: func(in []byte) (any, error) { return types.DecodeGrandpaVoters(in) },
			Encode: func(m any) ([]byte, error) { return types.EncodeGrandpaVoters(m.(types.GrandpaVoters)) }},
	}
}

func TestVerif_C33_types(t *testing.T) {
	r := verifmc.NewReport("C33", "types", "exploration")
	defer r.Write()
	cfg := ref.C33Config{MaxLen: verifmc.Pick(2, 3), CraftedScale: verifmc.Pick([]uint64{1 << 14, 1 << 20}, []uint64{1 << 14, 1 << 22, 1 << 30}), AllocAll: verifmc.Thorough()}
	r.Rule = ref.C33Rule(cfg)
	for _, a := range ref.C33Assumptions() {
		r.Assumption(a)
	}
	if bad := ref.C33Run(r, c33TypesDecoders(), cfg); len(bad) > 0 {
		t.Fatalf("harness invariant: catalogue entries rejected by their decoder: %v", bad)
	}
}
