//go:build verif

package grandpa

// C33 (part grandpa): the GRANDPA notification decoders against arbitrary peer bytes:
// (*Service).decodeMessage (network level), decodeMessage (gossip message), (*Service).decodeHandshake.
// Driver and oracle: internal/verifmc/ref c33_driver.go.

import (
	"fmt"
	"strings"
	"testing"

	"github.com/ChainSafe/gossamer/dot/network"
	"github.com/ChainSafe/gossamer/internal/verifmc"
	"github.com/ChainSafe/gossamer/internal/verifmc/ref"
)

func c33GrandpaDecoders() []ref.C33Decoder {
	var cat []ref.C33Valid
	for _, m := range c14GrandpaMessages() {
		// one entry per message kind and list shape, with the mid-range field values round=1 set=1 number=1
		n := m.Name
		if strings.Contains(n, "round=1 ") || strings.Contains(n, "round=1}") {
			if (strings.Contains(n, "set=1 ") || strings.Contains(n, "set=1}")) && (!strings.Contains(n, "number=") || strings.Contains(n, "number=1 ") || strings.Contains(n, "number=1}")) {
				if !verifmc.Thorough() && (strings.Contains(n, "prevotes=2") || strings.Contains(n, "precommits=0}")) && strings.Contains(n, "CatchUpResponse") {
					continue // quick: catch-up responses with (0,1), (0,2), (1,1), (1,2) votes
				}
				cat = append(cat, ref.C33Valid{Name: n, Enc: m.Enc})
			}
		}
	}
	var svc *Service // the decoders do not touch the receiver
	return []ref.C33Decoder{
		{Name: "grandpa.decodeMessage", Catalogue: cat,
			Decode: func(in []byte) (any, error) {
				m, err := decodeMessage(&network.ConsensusMessage{Data: in})
				if err != nil {
					return nil, err
				}
				return m, nil
			},
			Encode: func(m any) ([]byte, error) {
				cm, err := m.(GrandpaMessage).ToConsensusMessage()
				if err != nil {
					return nil, err
				}
				return cm.Data, nil
			},
			Observe: func(m any) {
				if s, ok := m.(fmt.Stringer); ok {
					_ = s.String()
				}
			}},
		{Name: "Service.decodeMessage", Catalogue: cat[:3],
			Decode: func(in []byte) (any, error) { return svc.decodeMessage(in) },
			Encode: func(m any) ([]byte, error) { return m.(NotificationsMessage).Encode() }},
		{Name: "Service.decodeHandshake", Catalogue: []ref.C33Valid{{Name: "full node", Enc: (&ref.C14Buf{}).U8(1)}, {Name: "authority", Enc: (&ref.C14Buf{}).U8(4)}},
			Decode: func(in []byte) (any, error) { return svc.decodeHandshake(in) },
			Encode: func(m any) ([]byte, error) { return m.(network.Handshake).Encode() }},
	}
}

func TestVerif_C33_grandpa(t *testing.T) {
	r := verifmc.NewReport("C33", "grandpa", "exploration")
	defer r.Write()
	cfg := ref.C33Config{MaxLen: verifmc.Pick(2, 3), CraftedScale: verifmc.Pick([]uint64{1 << 14, 1 << 20}, []uint64{1 << 14, 1 << 22, 1 << 30}), AllocAll: verifmc.Thorough()}
	r.Rule = ref.C33Rule(cfg)
	for _, a := range ref.C33Assumptions() {
		r.Assumption(a)
	}
	if bad := ref.C33Run(r, c33GrandpaDecoders(), cfg); len(bad) > 0 {
		t.Fatalf("harness invariant: catalogue entries rejected by their decoder: %v", bad)
	}
}
