//go:build verif

package messages

// C33 (part messages): BlockRequestMessage / BlockResponseMessage / WarpProofRequest / StateRequest /
// StateResponse decoders against arbitrary peer bytes.  Driver and oracle: internal/verifmc/ref
// c33_driver.go (message or error, no panic, no hang, allocation bound, decode.encode.decode stable).

import (
	"fmt"
	"testing"

	"github.com/ChainSafe/gossamer/internal/verifmc"
	"github.com/ChainSafe/gossamer/internal/verifmc/ref"
)

func c33Stringer(m any) {
	if s, ok := m.(fmt.Stringer); ok {
		_ = s.String()
	}
}

func c33MessagesDecoders() []ref.C33Decoder {
	var reqCat, respCat, warpCat, sreqCat, srespCat []ref.C33Valid
	for i, q := range c14ReqMenu(false) {
		if i%7 == 0 { // every 7th request of the reduced menu: both from-kinds, both directions, all max values occur
			reqCat = append(reqCat, ref.C33Valid{Name: q.String(), Enc: c14RefReq(q)})
		}
	}
	menu := c14BlockMenu(true)
	respCat = append(respCat, ref.C33Valid{Name: "empty response", Enc: c14RefResp(nil)})
	for _, i := range []int{0, 31, 107, 215, 323, 431} { // absent/empty/full optional parts, every header of the menu
		respCat = append(respCat, ref.C33Valid{Name: menu[i].String(), Enc: c14RefResp(menu[i : i+1])})
	}
	respCat = append(respCat, ref.C33Valid{Name: "two blocks", Enc: c14RefResp([]c14Block{menu[215], menu[431]})})
	h := ref.C14Hash32(9, 9)
	warpCat = append(warpCat, ref.C33Valid{Name: "warp proof request", Enc: ref.C14Raw(h[:])})
	for _, start := range [][][]byte{nil, {{1, 2}}, {{1, 2, 3}, {}}, {ref.C14Fill(32, 1, 1), ref.C14Fill(40, 2, 1)}} {
		for _, np := range []bool{false, true} {
			b := (&ref.C14Buf{}).PBBytes(1, ref.C14Raw(h[:]), "state-block")
			for _, s := range start {
				b.PBBytes(2, ref.C14Raw(s), "state-start")
			}
			if np {
				b.PBVarint(3, 1)
			}
			sreqCat = append(sreqCat, ref.C33Valid{Name: fmt.Sprintf("StateRequest{start=%d noProof=%t}", len(start), np), Enc: b})
		}
	}
	for ne := 0; ne <= 2; ne++ {
		b := &ref.C14Buf{}
		for e := 0; e < ne; e++ {
			kv := &ref.C14Buf{}
			kv.PBBytes(1, ref.C14Raw(h[:]), "state-root")
			for k := 0; k <= e; k++ {
				ent := (&ref.C14Buf{}).PBBytes(1, ref.C14Raw(ref.C14Fill(3+k, 1, 1)), "entry-key").PBBytes(2, ref.C14Raw(ref.C14Fill(5*k, 7, 1)), "entry-value")
				kv.PBBytes(2, ent, "state-entry")
			}
			kv.PBVarint(3, 1)
			b.PBBytes(1, kv, "key-value-state-entry")
		}
		b.PBBytesOpt(2, ref.C14Raw(ref.C14Fill(ne*9, 3, 3)), "state-proof")
		srespCat = append(srespCat, ref.C33Valid{Name: fmt.Sprintf("StateResponse{entries=%d}", ne), Enc: b})
	}
	return []ref.C33Decoder{
		{Name: "BlockRequestMessage.Decode", Catalogue: reqCat, Observe: c33Stringer,
			Decode: func(in []byte) (any, error) { m := &BlockRequestMessage{}; err := m.Decode(in); return m, err },
			Encode: func(m any) ([]byte, error) { return m.(*BlockRequestMessage).Encode() }},
		{Name: "BlockResponseMessage.Decode", Catalogue: respCat, Observe: c33Stringer,
			Decode: func(in []byte) (any, error) { m := &BlockResponseMessage{}; err := m.Decode(in); return m, err },
			Encode: func(m any) ([]byte, error) { return m.(*BlockResponseMessage).Encode() }},
		{Name: "WarpProofRequest.Decode", Catalogue: warpCat, Observe: c33Stringer,
			Decode: func(in []byte) (any, error) { m := &WarpProofRequest{}; err := m.Decode(in); return m, err },
			Encode: func(m any) ([]byte, error) { return m.(*WarpProofRequest).Encode() }},
		{Name: "StateRequest.Decode", Catalogue: sreqCat, Observe: c33Stringer,
			Decode: func(in []byte) (any, error) { m := &StateRequest{}; err := m.Decode(in); return m, err },
			Encode: func(m any) ([]byte, error) { return m.(*StateRequest).Encode() }},
		{Name: "StateResponse.Decode", Catalogue: srespCat,
			Decode: func(in []byte) (any, error) { m := &StateResponse{}; err := m.Decode(in); return m, err }},
	}
}

func TestVerif_C33_messages(t *testing.T) {
	r := verifmc.NewReport("C33", "messages", "exploration")
	defer r.Write()
	cfg := ref.C33Config{MaxLen: verifmc.Pick(2, 3), CraftedScale: verifmc.Pick([]uint64{1 << 14, 1 << 20}, []uint64{1 << 14, 1 << 22, 1 << 30}), CraftedPB: []uint64{1 << 14, 1 << 30, 1<<32 - 1}, AllocAll: verifmc.Thorough()}
	r.Rule = ref.C33Rule(cfg)
	for _, a := range ref.C33Assumptions() {
		r.Assumption(a)
	}
	if bad := ref.C33Run(r, c33MessagesDecoders(), cfg); len(bad) > 0 {
		t.Fatalf("harness invariant: catalogue entries rejected by their decoder: %v", bad)
	}
}
