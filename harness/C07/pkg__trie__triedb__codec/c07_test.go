//go:build verif

package codec

// C07 (part codec): trie node encodings decode to equivalent nodes and decoding is robust -
// pkg/trie/triedb/codec (this package has no node encoder of its own: the valid encodings are the
// reference encodings that the node part compares with Node.Encode).
//
// Statement clauses and the oracle clause that implements each:
//  (a) "every trie node encodes to bytes that decode back to an equivalent node ... leaves and
//      branches, with or without a value, inline or hashed values, any partial key length up to
//      65535 nibbles"
//      -> for every enumerated shape: Decode[H256] the reference encoding (bytes.Reader) and
//         compare kind, partial key nibbles, inline value / value hash, presence of every child,
//         the bytes of every inlined child (which are decoded and compared recursively) and the
//         hash of every hashed child with the description the encoding was produced from.
//  (b) "decoding any byte string yields a node or an error and never panics or hangs"
//      -> every byte string of length <= 2 (quick) / <= 3 (thorough), the deviation-1
//         neighbourhood of every valid encoding, and every valid encoding through unfriendly but
//         legal readers (every split point, one byte per Read): no panic, no hang.
// Not demanded (statement silent, counted as outcomes only): what a short-reading io.Reader makes
// Decode return.

import (
	"bytes"
	"fmt"
	"io"
	"os"
	"strings"
	"sync"
	"sync/atomic"
	"testing"
	"time"

	"github.com/ChainSafe/gossamer/internal/primitives/core/hash"
	"github.com/ChainSafe/gossamer/internal/verifmc"
	"github.com/ChainSafe/gossamer/internal/verifmc/ref"
	"github.com/ChainSafe/gossamer/pkg/trie/triedb/nibbles"
)

// ---------------------------------------------------------------- building and comparing

func c07NibblesOf(n nibbles.Nibbles) []byte {
	out := make([]byte, n.Len())
	for i := range out {
		out[i] = n.At(uint(i))
	}
	return out
}

// c07Equiv compares a decoded node with the description; returns "" or "<shape> :: text".
// (path "" = only the verdict is needed: a cheap pre-check avoids rendering a message)
func c07Equiv(d *ref.C07Desc, got EncodedNode, path string) string {
	if path == "" {
		switch n := got.(type) {
		case Leaf:
			if d.Branch || int(n.PartialKey.Len()) != len(d.PK) {
				return "differs"
			}
		case Branch:
			if !d.Branch || int(n.PartialKey.Len()) != len(d.PK) {
				return "differs"
			}
		default:
			return "differs"
		}
		path = "node"
	}
	var pk nibbles.Nibbles
	var val EncodedValue
	var kids *[ChildrenCapacity]MerkleValue
	switch n := got.(type) {
	case nil:
		return "node-decodes-to-nil :: " + path + ": decoded node is nil"
	case Empty:
		return "node-decodes-to-empty :: " + path + ": decoded node is the empty node"
	case Leaf:
		if d.Branch {
			return "kind-differs :: " + path + ": decoded a leaf, want a branch"
		}
		pk, val = n.PartialKey, n.Value
	case Branch:
		if !d.Branch {
			return "kind-differs :: " + path + ": decoded a branch, want a leaf"
		}
		pk, val, kids = n.PartialKey, n.Value, &n.Children
	default:
		return fmt.Sprintf("kind-differs :: %s: decoded %T", path, got)
	}
	if gp := c07NibblesOf(pk); !bytes.Equal(gp, d.PK) {
		return fmt.Sprintf("partial-key-differs :: %s: partial key of %d nibbles %s, want %d nibbles %s", path, len(gp), c07Short(gp), len(d.PK), c07Short(d.PK))
	}
	hasValue := d.HasValue || !d.Branch
	switch {
	case !hasValue:
		if val != nil {
			return fmt.Sprintf("value-appears :: %s: branch without value decodes with value %v", path, val)
		}
	case d.Hashed:
		hv, ok := val.(HashedValue[hash.H256])
		if !ok || !bytes.Equal(hv.Hash.Bytes(), ref.Blake256(d.RawValue)) {
			return fmt.Sprintf("hashed-value-differs :: %s: value %T %v, want hashed value %x", path, val, val, ref.Blake256(d.RawValue))
		}
	default:
		iv, ok := val.(InlineValue)
		if !ok {
			return fmt.Sprintf("inline-value-kind-differs :: %s: value decodes as %T, want an inline value", path, val)
		}
		if !bytes.Equal(iv, d.RawValue) {
			return fmt.Sprintf("inline-value-differs :: %s: value %s, want %s", path, c07Short(iv), c07Short(d.RawValue))
		}
	}
	if !d.Branch {
		return ""
	}
	for i, k := range d.Kids {
		c := kids[i]
		if (k == nil) != (c == nil) {
			return fmt.Sprintf("child-presence-differs :: %s: child %d present=%t, want %t", path, i, c != nil, k != nil)
		}
		if k == nil {
			continue
		}
		enc, _ := k.Encode()
		if len(enc) >= 32 {
			hn, ok := c.(HashedNode[hash.H256])
			if !ok || !bytes.Equal(hn.Hash.Bytes(), ref.Blake256(enc)) {
				return fmt.Sprintf("hashed-child-differs :: %s: child %d is %T %v, want hash %x", path, i, c, c, ref.Blake256(enc))
			}
			continue
		}
		in, ok := c.(InlineNode)
		if !ok || !bytes.Equal(in, enc) {
			return fmt.Sprintf("inline-child-differs :: %s: child %d is %T %v, want inline bytes %x", path, i, c, c, enc)
		}
		sub, err := Decode[hash.H256](bytes.NewReader(in))
		if err != nil {
			return fmt.Sprintf("inline-child-undecodable :: %s: child %d bytes %x: %v", path, i, []byte(in), err)
		}
		if m := c07Equiv(k, sub, fmt.Sprintf("%s/child%d", path, i)); m != "" {
			return "inline-" + m
		}
	}
	return ""
}

func c07Short(b []byte) string {
	if b == nil {
		return "nil"
	}
	if len(b) > 12 {
		return fmt.Sprintf("%x..(%d bytes)", b[:12], len(b))
	}
	return fmt.Sprintf("%x", b)
}

// ---------------------------------------------------------------- running the decoder safely

type c07Result struct {
	node     EncodedNode
	err      error
	panicked bool
	msg      string
}

func c07Decode(r io.Reader) (res c07Result) {
	res.panicked, res.msg = verifmc.Guard(func() { res.node, res.err = Decode[hash.H256](r) })
	return res
}

// c07Norm: first line of a panic / error text with digit runs replaced by '#'.
func c07Norm(msg string) string {
	if i := strings.IndexByte(msg, '\n'); i >= 0 {
		msg = msg[:i]
	}
	msg = strings.TrimPrefix(msg, "panic: ")
	var b strings.Builder
	run := false
	for _, c := range msg {
		if c >= '0' && c <= '9' {
			if !run {
				b.WriteByte('#')
			}
			run = true
			continue
		}
		run = false
		b.WriteRune(c)
	}
	out := b.String()
	if len(out) > 70 {
		out = out[:70]
	}
	return out
}

func c07PanicSig(msg string) string {
	return "Decode:panic@" + verifmc.PanicSite(msg) + ":" + c07Norm(msg)
}

// c07ErrClass maps an error to the stage of decoding that rejected the input.
func c07ErrClass(err error) string {
	s := err.Error()
	for _, c := range [][2]string{
		{"inlined child", "inlined-child"}, {"reading header byte", "header-eof"}, {"reading key length", "key-length-eof"},
		{"variant is unknown", "variant-unknown"}, {"cannot be larger", "key-too-long"}, {"cannot decode key", "key-short"},
		{"children bitmap", "bitmap"}, {"hashed storage value too short", "hashed-value-short"}, {"cannot decode hashed", "hashed-value"},
		{"cannot decode storage value", "storage-value"}, {"cannot decode child hash", "child-reference"},
	} {
		if strings.Contains(s, c[0]) {
			return "error:" + c[1]
		}
	}
	return "error:other:" + c07Norm(s)
}

// splitReader returns the bytes of data but ends one Read call at offset split (a short read
// without error, which io.Reader allows); oneByte makes every Read return a single byte.
type c07SplitReader struct {
	data    []byte
	pos     int
	split   int
	oneByte bool
}

func (r *c07SplitReader) Read(p []byte) (int, error) {
	if r.pos >= len(r.data) {
		return 0, io.EOF
	}
	if len(p) == 0 {
		return 0, nil
	}
	end := r.pos + len(p)
	if end > len(r.data) {
		end = len(r.data)
	}
	if r.oneByte {
		end = r.pos + 1
	} else if r.pos < r.split && end > r.split {
		end = r.split
	}
	n := copy(p, r.data[r.pos:end])
	r.pos = end
	return n, nil
}

// c07Monitor turns "no progress on one element for longer than limit" into a reported hang: every
// worker registers a task and publishes (atomically) the element it is working on; the monitor
// writes the report and stops the process (a hung goroutine cannot be killed).
type c07Monitor struct {
	mu    sync.Mutex
	tasks map[*c07Task]struct{}
	stop  chan struct{}
}

type c07Task struct {
	what   string
	render func(cur int64) string
	cur    int64 // element being executed (atomic)
	step   int64 // number of elements started (atomic)
	last   int64
	lastT  time.Time
}

func (t *c07Task) at(cur int64) {
	atomic.StoreInt64(&t.cur, cur)
	atomic.AddInt64(&t.step, 1)
}

func c07NewMonitor(r *verifmc.Report, limit time.Duration) *c07Monitor {
	m := &c07Monitor{tasks: map[*c07Task]struct{}{}, stop: make(chan struct{})}
	go func() {
		tk := time.NewTicker(time.Second)
		defer tk.Stop()
		for {
			select {
			case <-m.stop:
				return
			case now := <-tk.C:
				m.mu.Lock()
				for t := range m.tasks {
					if s := atomic.LoadInt64(&t.step); s != t.last {
						t.last, t.lastT = s, now
						continue
					}
					if now.Sub(t.lastT) > limit {
						el := t.what + ": " + t.render(atomic.LoadInt64(&t.cur))
						r.Violate("Decode:hang", fmt.Sprintf("decoding did not return within %s: %s", limit, el), el)
						r.Capped("stopped after a hang")
						m.mu.Unlock()
						r.Write()
						os.Exit(1)
					}
				}
				m.mu.Unlock()
			}
		}
	}()
	return m
}

func (m *c07Monitor) begin(what string, render func(cur int64) string) *c07Task {
	t := &c07Task{what: what, render: render, lastT: time.Now()}
	m.mu.Lock()
	m.tasks[t] = struct{}{}
	m.mu.Unlock()
	return t
}

func (m *c07Monitor) end(t *c07Task) {
	m.mu.Lock()
	delete(m.tasks, t)
	m.mu.Unlock()
}

// c07Classes collects outcome classes of one work item; flush reports each class once.
type c07Classes map[string]struct{}

func (c c07Classes) add(k string) { c[k] = struct{}{} }
func (c c07Classes) flush(r *verifmc.Report) {
	for k := range c {
		r.Outcome(k)
	}
}

var c07DevKinds = []string{"trunc", "subst", "append", "split", "one-byte"}

func c07Pack(kind string, pos int, val byte) int64 {
	k := 0
	for i, n := range c07DevKinds {
		if n == kind {
			k = i
		}
	}
	return int64(k)<<40 | int64(pos)<<8 | int64(val)
}

func c07Unpack(cur int64) string {
	return fmt.Sprintf("%s at offset %d (value %02x)", c07DevKinds[(cur>>40)&7], (cur>>8)&0xffffffff, byte(cur))
}

// ---------------------------------------------------------------- the check

func TestVerif_C07_codec(t *testing.T) {
	r := verifmc.NewReport("C07", "codec", "exploration")
	defer r.Write()
	maxLen := verifmc.Pick(2, 3)
	fullLimit := verifmc.Pick(100, 1200)
	r.Rule = fmt.Sprintf("round trip: every shape of {leaf,branch} x value {none,empty,1,32,33 inline,33 hashed,64,16384 bytes} x partial key length at every header boundary of the variant (0,1,2, max-1..max+1, max+254..max+256 for max=63/31/15, 62..64, 317..319, 65534, 65535; thorough adds max+509..max+511, the last multiple of 255, 65, 573 and 12 more) x 5 (quick) / 10 (thorough) child configurations (inline leaf / hashed / inline branch, 1, 2 or 16 children) is encoded by the reference encoder, decoded with codec.Decode[H256] and compared field by field with its description; robustness: every byte string of length <= %d, for every valid encoding of <= %d bytes (quick: and a partial key of <= 1 nibble) every single-byte substitution (255 values x every position), every truncation and 3 appended bytes, for the other encodings the same at every structural offset (header, key ends, bitmap, length prefixes, field starts; quick: the first 9 of them and the last byte), (inputs declaring a byte-string length above 64 KiB are executed serially, up to 8 MiB, for the designated pk=1 shapes (quick 7, thorough 21) and counted as skipped otherwise), every valid encoding through a one-byte-per-Read reader, the designated shapes through a reader that splits at every offset (thorough: also every other shape at every structural offset; encodings <= %d bytes). Non-trivial = the decoder returned a node or got past the header", maxLen, fullLimit, fullLimit)
	mon := c07NewMonitor(r, 300*time.Second)
	defer close(mon.stop)

	shapes := ref.C07Shapes(verifmc.Thorough())
	encs := make([][]byte, len(shapes))
	marks := make([][]int, len(shapes))

	phase := time.Now()
	lap := func(name string) {
		r.Extra["seconds_"+name] = fmt.Sprintf("%.1f", time.Since(phase).Seconds())
		phase = time.Now()
	}
	// ---- (a) round trip
	var mu sync.Mutex
	verifmc.ParallelFor(r, len(shapes), func(i int) {
		sh := shapes[i]
		task := mon.begin("round trip of "+sh.Name, func(int64) string { return "" })
		defer mon.end(task)
		task.at(0)
		want, mk := sh.D.Encode()
		mu.Lock()
		encs[i], marks[i] = want, mk
		mu.Unlock()
		r.Add("evaluations", 1)
		r.Add("roundtrip_shapes", 1)
		r.Distinct("shape:" + sh.Name)
		got := want
		res := c07Decode(bytes.NewReader(got))
		switch {
		case res.panicked:
			r.Violate("RoundTrip:"+c07PanicSig(res.msg), sh.Name+": Decode(Encode(n)) panics: "+res.msg, map[string]any{"shape": sh.Name, "bytes": c07Short(got)})
			r.Outcome("roundtrip:decode-panic")
		case res.err != nil:
			r.Violate("RoundTrip:decode-error:"+c07Norm(res.err.Error()), sh.Name+": Decode(Encode(n)) returns error "+res.err.Error(), map[string]any{"shape": sh.Name, "bytes": c07Short(got)})
			r.Outcome("roundtrip:decode-error")
		default:
			if m := c07Equiv(sh.D, res.node, "node"); m != "" {
				sig := m[:strings.Index(m, " :: ")]
				r.Violate("RoundTrip:"+sig, sh.Name+": "+m, map[string]any{"shape": sh.Name, "bytes": c07Short(got)})
				r.Outcome("roundtrip:not-equivalent:" + sig)
			} else {
				r.Outcome("roundtrip:equivalent")
			}
		}
		if i%97 == 5 {
			r.Sample(map[string]any{"shape": sh.Name, "encoding": c07Short(got), "len": len(got)})
		}
	}, func(i int, msg string) {
		r.Violate("harness-panic", msg, shapes[i].Name)
	})

	lap("roundtrip")
	if os.Getenv("VERIF_C07_PHASES") == "roundtrip" {
		// developer knob (used to confirm mutants quickly): the run is reported as not exhaustive
		r.Capped("restricted to the round-trip phase by VERIF_C07_PHASES")
		return
	}
	// ---- (b1) every byte string up to maxLen
	nAll := verifmc.NumBytesUpTo(maxLen)
	const chunk = 4096
	nChunks := (nAll + chunk - 1) / chunk
	verifmc.ParallelFor(r, nChunks, func(ci int) {
		var ev, nodes, empties, errs int64
		classes := c07Classes{}
		task := mon.begin("byte strings", func(cur int64) string { return fmt.Sprintf("Decode(%x)", verifmc.BytesAt(int(cur))) })
		defer mon.end(task)
		for i := ci * chunk; i < (ci+1)*chunk && i < nAll; i++ {
			in := verifmc.BytesAt(i)
			task.at(int64(i))
			res := c07Decode(bytes.NewReader(in))
			ev++
			switch {
			case res.panicked:
				r.Violate(c07PanicSig(res.msg), fmt.Sprintf("Decode(%x) panics: %s", in, res.msg), fmt.Sprintf("%x", in))
				classes.add("bytes:panic")
			case res.err != nil:
				errs++
				classes.add("bytes:" + c07ErrClass(res.err))
			case res.node == nil || res.node == EncodedNode(Empty{}):
				empties++
				classes.add("bytes:empty-node")
			default:
				nodes++
				classes.add(fmt.Sprintf("bytes:node:%T", res.node))
				r.Distinct(fmt.Sprintf("bytes:%x", in))
			}
		}
		r.Add("evaluations", ev)
		r.Add("bytes_inputs", ev)
		r.Add("bytes_decoded_to_node", nodes)
		r.Add("bytes_decoded_to_empty", empties)
		r.Add("bytes_rejected", errs)
		classes.flush(r)
	}, func(i int, msg string) { r.Violate("harness-panic", msg, i) })

	lap("bytes")
	// ---- (b2) deviation-1 neighbourhood of every valid encoding, (b3) unfriendly readers
	//
	// Inputs that declare a SCALE byte-string length above 64 KiB make the SCALE decoder allocate
	// that much (up to 1 GiB for a 30-byte input - C12's subject, not a panic or a hang).  They are
	// recognised by an independent structural walk (ref.C07MaxDeclaredLen); those declaring up to
	// 8 MiB are executed one at a time for the designated shapes; the others are counted as skipped
	// (a stated restriction of the executed space, not a sample).
	const heavyFrom, heavyTo = 64 << 10, 8 << 20
	var heavyMu sync.Mutex
	readerSem := make(chan struct{}, 2)
	var nsDev, nsReader int64
	verifmc.ParallelFor(r, len(shapes), func(i int) {
		if encs[i] == nil {
			return
		}
		sh := shapes[i]
		tShape := time.Now()
		enc := append([]byte{}, encs[i]...) // working copy, modified in place and restored
		full := len(enc) <= fullLimit && (verifmc.Thorough() || len(sh.D.PK) <= 1)
		designated := c07HeavyDesignated(sh.Name)
		isMark := map[int]bool{}
		for j, m := range marks[i] {
			// quick tier: the header / key ends / bitmap / first length prefix (the first 9 structural
			// offsets) and the last byte; the value and child region of these shapes has the same
			// layout as in the fully enumerated shapes with short partial keys
			if !verifmc.Thorough() && j >= 9 && j != len(marks[i])-1 {
				continue
			}
			isMark[m] = true
			isMark[m+1] = true // truncation just after a structural byte
		}
		var ev, okSame, okOther, rejected, heavyRun, heavySkipped int64
		classes := c07Classes{}
		defer classes.flush(r)
		task := mon.begin(sh.Name, c07Unpack)
		defer mon.end(task)
		try := func(kind string, pos int, val byte, data []byte) {
			task.at(c07Pack(kind, pos, val))
			if d := ref.C07MaxDeclaredLen(data); d > heavyFrom {
				if !designated || d > heavyTo {
					heavySkipped++
					return
				}
				heavyRun++
				heavyMu.Lock()
				task.at(c07Pack(kind, pos, val))
				defer heavyMu.Unlock()
			}
			res := c07Decode(bytes.NewReader(data))
			ev++
			switch {
			case res.panicked:
				r.Violate(c07PanicSig(res.msg), fmt.Sprintf("%s with %s at offset %d (value %02x): Decode panics: %s", sh.Name, kind, pos, val, res.msg),
					map[string]any{"shape": sh.Name, "deviation": kind, "pos": pos, "val": val, "bytes": c07Replay(data)})
				classes.add("deviation:panic")
			case res.err != nil:
				rejected++
				classes.add("deviation:" + c07ErrClass(res.err))
			default:
				if res.node != nil && c07Equiv(sh.D, res.node, "") == "" {
					okSame++
				} else {
					okOther++
					if okOther <= 2 {
						r.Distinct(fmt.Sprintf("dev:%s:%s:%d:%02x", sh.Name, kind, pos, val))
					}
				}
			}
		}
		for l := 0; l < len(enc); l++ {
			if full || isMark[l] {
				try("trunc", l, 0, enc[:l])
			}
		}
		for pos := range enc {
			if !full && !isMark[pos] {
				continue
			}
			orig := enc[pos]
			for v := 0; v < 256; v++ {
				if byte(v) == orig {
					continue
				}
				enc[pos] = byte(v)
				try("subst", pos, byte(v), enc)
			}
			enc[pos] = orig
		}
		for _, v := range []byte{0x00, 0x01, 0xff} {
			try("append", len(enc), v, append(append([]byte{}, enc...), v))
		}
		r.Add("evaluations", ev)
		r.Add("deviation_inputs", ev)
		r.Add("deviation_decoded_equivalent", okSame)
		r.Add("deviation_decoded_other_node", okOther)
		r.Add("deviation_rejected", rejected)
		r.Add("deviation_alloc_heavy_executed", heavyRun)
		r.Add("deviation_alloc_heavy_skipped", heavySkipped)
		if okSame > 0 {
			classes.add("deviation:decodes-to-the-same-node(ignored byte)")
		}
		if okOther > 0 {
			classes.add("deviation:decodes-to-another-node")
		}
		if heavySkipped > 0 {
			classes.add("deviation:declares-more-than-64KiB(skipped,counted)")
		}
		atomic.AddInt64(&nsDev, int64(time.Since(tShape)))
		tShape = time.Now()
		defer func() { atomic.AddInt64(&nsReader, int64(time.Since(tShape))) }()
		// unfriendly readers: only panic / hang are demanded; the result classes are counted
		var rev int64
		reader := func(name string, rd io.Reader, pos int) {
			readerSem <- struct{}{} // a short read shifts the stream: declared lengths are unpredictable
			task.at(c07Pack(name, pos, 0))
			res := c07Decode(rd)
			<-readerSem
			task.at(c07Pack(name, pos, 0))
			rev++
			switch {
			case res.panicked:
				r.Violate("Reader:"+c07PanicSig(res.msg), fmt.Sprintf("%s read through a %s reader (offset %d): Decode panics: %s", sh.Name, name, pos, res.msg),
					map[string]any{"shape": sh.Name, "reader": name, "pos": pos})
				classes.add("reader:panic")
			case res.err != nil:
				classes.add("reader:" + name + ":valid-encoding-rejected(counted)")
			case res.node != nil && c07Equiv(sh.D, res.node, "") == "":
				classes.add("reader:" + name + ":equivalent")
			default:
				classes.add("reader:" + name + ":different-node-without-error(counted)")
			}
		}
		// (a short read shifts the stream, after which arbitrary bytes are taken as length prefixes
		// and up to 1 GiB is allocated per element: every offset for the designated shapes; in the
		// thorough tier also every structural offset of every other shape)
		reader("one-byte", &c07SplitReader{data: enc, oneByte: true}, 0)
		for s := 1; s < len(enc); s++ {
			if designated && full || verifmc.Thorough() && isMark[s] {
				reader("split", &c07SplitReader{data: enc, split: s}, s)
			}
		}
		r.Add("evaluations", rev)
		r.Add("reader_inputs", rev)
	}, func(i int, msg string) { r.Violate("harness-panic", msg, shapes[i].Name) })
	lap("deviations_and_readers")
	r.Extra["worker_seconds_deviations"] = fmt.Sprintf("%.1f", float64(nsDev)/1e9)
	r.Extra["worker_seconds_readers"] = fmt.Sprintf("%.1f", float64(nsReader)/1e9)
	r.Extra["max_bytes_len"] = maxLen
	r.Extra["full_neighbourhood_up_to_bytes"] = fullLimit
	r.Extra["shapes"] = len(shapes)
}

// c07HeavyDesignated: the shapes (partial key of one nibble; thorough: 6 leaves, 3 x 5 branches;
// quick: 2 leaves, 5 branches without value) whose allocation-heavy deviations (up to 8 MiB) and whose reader splits at every offset are executed.
func c07HeavyDesignated(name string) bool {
	if !strings.Contains(name, " pk=1 ") {
		return false
	}
	if !strings.HasPrefix(name, "branch") {
		if !verifmc.Thorough() {
			return strings.Contains(name, "v=01") || strings.Contains(name, "v=33hashed")
		}
		return !strings.Contains(name, "16384")
	}
	if !verifmc.Thorough() && !strings.Contains(name, "v=none") {
		return false
	}
	if !(strings.Contains(name, "v=none") || strings.Contains(name, "v=01") || strings.Contains(name, "v=33hashed")) {
		return false
	}
	for _, k := range []string{" c0=inline", " c0=hashed", " c5=inlinebranch", " c7=hashed,c8=inline", " all16=mixed"} {
		if strings.HasSuffix(name, k) {
			return true
		}
	}
	return false
}

func c07Replay(b []byte) string {
	if len(b) > 96 {
		return fmt.Sprintf("%x..(%d bytes; rebuild from shape+deviation)", b[:96], len(b))
	}
	return fmt.Sprintf("%x", b)
}
